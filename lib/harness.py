"""Builds and runs C++ translation units that execute generated uisupport headers against the
Qt API model (E3).  A *program* = one translated document (type name P<k>) + a driver function
body; a *batch* = many programs in one translation unit sharing one set of class declarations.
"""
import os
import re
import shutil
import subprocess
import tempfile

import qtmock
import uiread
import vcommon as vc

QTMOCK_DIR = os.path.join(vc.VERIF, "engine", "qtmock")
CXX = os.environ.get("VERIF_CXX", "g++")
BASE_FLAGS = ["-std=c++17", "-O0", "-w", "-fno-diagnostics-color", "-I", QTMOCK_DIR]


class Program:
    def __init__(self, pid, ui_text, header_text, driver_body, meta=None):
        self.pid = pid              # also the type name given to qmluic (P<k>)
        self.ui_text = ui_text
        self.header_text = header_text
        self.driver_body = driver_body      # C++ statements; may use `root`, `ui`, the objects by name
        self.meta = meta or {}
        self.members = None
        self.root_class = None
        self.root_name = None


def object_setup(p):
    """C++ that creates the root object, every object the .ui declares, and the Ui struct."""
    ui = uiread.parse(p.ui_text)
    uih, members, root_cls, root_name = qtmock.ui_header(ui, p.pid)
    p.members, p.root_class, p.root_name = members, root_cls, root_name
    lines = [f"{root_cls} {root_name}_obj; {root_cls} *root = &{root_name}_obj; root->vname = \"{root_name}\";",
             f"Ui::{p.pid} ui_obj; Ui::{p.pid} *ui = &ui_obj;"]
    for cls, n in members:
        if cls == "QSpacerItem":
            lines.append(f"{cls} {n}_obj; ui->{n} = &{n}_obj;")
        else:
            lines.append(f"{cls} {n}_obj; {n}_obj.vname = \"{n}\"; ui->{n} = &{n}_obj; {cls} *{n} = &{n}_obj; (void){n};")
    return uih, "\n        ".join(lines)


def build_tu(programs, workdir, sanitize=False):
    """Writes all files of a batch; returns the path of main.cpp."""
    os.makedirs(workdir, exist_ok=True)
    all_headers = "\n".join(p.header_text for p in programs)
    gen = qtmock.Gen(all_headers)
    class_names = []
    main = ['#include "decl.h"', "#include <algorithm>", "#include <QtDebug>", "#include <cstdio>", "#include <iostream>",
            "#define private public   /* explorers read observer slots and guard bits */"]
    fns = []
    for p in programs:
        ui = uiread.parse(p.ui_text)
        names, _custom = qtmock.classes_in_ui(ui)
        class_names += names + qtmock.classes_in_header(p.header_text, gen.types)
        uih, setup = object_setup(p)
        low = p.pid.lower()
        with open(os.path.join(workdir, f"ui_{low}.h"), "w") as f:
            f.write(uih)
        with open(os.path.join(workdir, f"uisupport_{low}.h"), "w") as f:
            f.write(p.header_text)
        main.append(f'#include "uisupport_{low}.h"')
        body = p.driver_body.replace("@SETUP@", setup).replace("@PID@", p.pid)
        fns.append(f"static void run_{p.pid}() {{\n{body}\n}}")
    decl = gen.declarations(class_names)
    with open(os.path.join(workdir, "decl.h"), "w") as f:
        f.write("#pragma once\n" + decl)
    main.append("#undef private")
    main.append("""
static void emit(const char *pid, const std::string &state, const std::string &value) {
    std::printf("%s|%s|%s\\n", pid, state.c_str(), value.c_str());
}
#define VERIF_GUARD(pid, state, stmt) \\
    try { stmt; } \\
    catch (const verif::Unreachable &e) { emit(pid, state, std::string("!unreachable")); } \\
    catch (const verif::AssertFailed &e) { emit(pid, state, std::string("!assert:") + e.what()); } \\
    catch (const verif::Undefined &e) { emit(pid, state, std::string("!undefined:") + e.what()); } \\
    catch (const std::exception &e) { emit(pid, state, std::string("!exception:") + e.what()); }
""")
    main += fns
    main.append("int main(int argc, char **argv) {")
    main.append("    std::string only = argc > 1 ? argv[1] : \"\";")
    for p in programs:
        main.append(f'    if (only.empty() || only == "{p.pid}") run_{p.pid}();')
    main.append("    return 0;\n}")
    path = os.path.join(workdir, "main.cpp")
    with open(path, "w") as f:
        f.write("\n".join(main) + "\n")
    return path


def compile_tu(workdir, main_cpp, sanitize=False, syntax_only=False, timeout=900):
    flags = list(BASE_FLAGS) + ["-I", workdir]
    if sanitize:
        flags += ["-fsanitize=address,undefined", "-fno-sanitize-recover=undefined", "-g"]
    if syntax_only:
        cmd = [CXX] + flags + ["-fsyntax-only", main_cpp]
    else:
        cmd = [CXX] + flags + ["-o", os.path.join(workdir, "main"), main_cpp]
    p = subprocess.run(cmd, stdout=subprocess.PIPE, stderr=subprocess.STDOUT, text=True, timeout=timeout)
    return p.returncode, p.stdout


def run_tu(workdir, only=None, timeout=60):
    cmd = [os.path.join(workdir, "main")] + ([only] if only else [])
    env = dict(os.environ, ASAN_OPTIONS="detect_leaks=0:abort_on_error=0", UBSAN_OPTIONS="print_stacktrace=0")
    try:
        p = subprocess.run(cmd, stdout=subprocess.PIPE, stderr=subprocess.PIPE, timeout=timeout, env=env)
    except subprocess.TimeoutExpired:
        return "timeout", "", ""
    return p.returncode, p.stdout.decode("utf-8", "replace"), p.stderr.decode("utf-8", "replace")


def run_batch(programs, tag="b", sanitize=False, keep=False):
    """Compiles and runs a batch. Returns {pid: {"lines": [(state, value)], "compile_error": str|None,
    "crash": str|None}}. A batch that does not compile is split until the offending programs are
    isolated (their compile error is reported, the others still run)."""
    out = {p.pid: {"lines": [], "compile_error": None, "crash": None} for p in programs}
    if not programs:
        return out
    base = os.environ.get("VERIF_SCRATCH", tempfile.gettempdir())
    workdir = tempfile.mkdtemp(prefix=f"verif-cxx-{tag}-", dir=base)
    try:
        main_cpp = build_tu(programs, workdir, sanitize)
        rc, log = compile_tu(workdir, main_cpp, sanitize)
        if rc != 0:
            if len(programs) == 1:
                out[programs[0].pid]["compile_error"] = log[-3000:]
                return out
            mid = len(programs) // 2
            shutil.rmtree(workdir, ignore_errors=True)
            out.update(run_batch(programs[:mid], tag, sanitize))
            out.update(run_batch(programs[mid:], tag, sanitize))
            return out
        rc, stdout, stderr = run_tu(workdir, timeout=max(20, len(programs)))
        if rc != 0:
            # a crash or a hang (sanitizer report, segfault from a null dereference the pruning missed,
            # a goto cycle ...): run the programs one by one, each under a short deadline
            for p in programs:
                rc1, so1, se1 = run_tu(workdir, only=p.pid, timeout=3)
                parse_lines(so1, out)
                if rc1 == "timeout":
                    out[p.pid]["crash"] = "timeout: the generated code did not terminate within 3 s"
                elif rc1 != 0:
                    out[p.pid]["crash"] = f"exit {rc1}: " + se1[-1500:]
            return out
        parse_lines(stdout, out)
        return out
    finally:
        if not keep:
            shutil.rmtree(workdir, ignore_errors=True)


def compile_batch(programs, tag="cb"):
    """Type-checks a batch (-fsyntax-only, many headers per translation unit); a failing batch is
    bisected. -> {pid: error text or None}"""
    out = {p.pid: None for p in programs}
    if not programs:
        return out
    base = os.environ.get("VERIF_SCRATCH", tempfile.gettempdir())
    workdir = tempfile.mkdtemp(prefix=f"verif-cxx-{tag}-", dir=base)
    try:
        main_cpp = build_tu(programs, workdir)
        rc, log = compile_tu(workdir, main_cpp, syntax_only=True)
    finally:
        shutil.rmtree(workdir, ignore_errors=True)
    if rc == 0:
        return out
    if len(programs) == 1:
        out[programs[0].pid] = log[-3000:]
        return out
    mid = len(programs) // 2
    out.update(compile_batch(programs[:mid], tag))
    out.update(compile_batch(programs[mid:], tag))
    return out


def parse_lines(stdout, out):
    for line in stdout.splitlines():
        parts = line.split("|", 2)
        if len(parts) == 3 and parts[0] in out:
            out[parts[0]]["lines"].append((parts[1], parts[2]))


def cxx_str(s):
    """C++ QString expression for a Python string (octal escapes below U+00A0: universal character
    names are ill-formed there)."""
    o = []
    for ch in s:
        c = ord(ch)
        if c > 0xffff:
            o.append("\\U%08x" % c)
        elif c >= 0xa0:
            o.append("\\u%04x" % c)
        elif c < 0x20 or c > 0x7e or ch in '"\\?':
            o.append("\\%03o" % c)
        else:
            o.append(ch)
    return 'QString(u"' + "".join(o) + '")'
