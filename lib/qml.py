"""Tiny QML document model + serializer that records the byte span of every object and binding
(diagnostic ranges are judged against these spans)."""


class B:
    """A binding `name: value` (value is QML/JS source text). `name` may be dotted."""
    __slots__ = ("name", "value", "span", "value_span", "tag")

    def __init__(self, name, value, tag=None):
        self.name = name
        self.value = value
        self.span = None
        self.value_span = None
        self.tag = tag

    def clone(self):
        return B(self.name, self.value, self.tag)


class G:
    """A grouped binding `name { a: 1; b: 2 }`."""
    __slots__ = ("name", "members", "span", "tag")

    def __init__(self, name, members, tag=None):
        self.name = name
        self.members = members
        self.span = None
        self.tag = tag

    def clone(self):
        return G(self.name, [m.clone() for m in self.members], self.tag)


class Obj:
    __slots__ = ("cls", "id", "items", "span", "tag")

    def __init__(self, cls, id=None, items=None, tag=None):
        self.cls = cls
        self.id = id
        self.items = items or []   # B | G | Obj, in source order
        self.span = None
        self.tag = tag

    def add(self, *items):
        self.items.extend(items)
        return self

    @property
    def children(self):
        return [x for x in self.items if isinstance(x, Obj)]

    @property
    def bindings(self):
        return [x for x in self.items if isinstance(x, (B, G))]

    def walk(self):
        yield self
        for c in self.children:
            yield from c.walk()

    def clone(self):
        return Obj(self.cls, self.id, [x.clone() for x in self.items], self.tag)


class _W:
    def __init__(self):
        self.parts = []
        self.off = 0

    def w(self, s):
        self.parts.append(s)
        self.off += len(s.encode("utf-8"))


def _render_item(w, it, ind, oneline):
    pad = "" if oneline else "    " * ind
    sep = "; " if oneline else "\n"
    if isinstance(it, B):
        w.w(pad)
        s = w.off
        w.w(it.name + ": ")
        vs = w.off
        w.w(it.value)
        it.span = (s, w.off)
        it.value_span = (vs, w.off)
        w.w(sep)
    elif isinstance(it, G):
        w.w(pad)
        s = w.off
        w.w(it.name + " { ")
        for m in it.members:
            _render_item(w, m, 0, True)
        w.w("}")
        it.span = (s, w.off)
        w.w(sep)
    else:
        _render_obj(w, it, ind, oneline)


def _render_obj(w, o, ind, oneline):
    pad = "" if oneline else "    " * ind
    sep = " " if oneline else "\n"
    w.w(pad)
    s = w.off
    w.w(o.cls + " {" + sep)
    if o.id is not None:
        w.w(("" if oneline else "    " * (ind + 1)) + "id: " + o.id + ("; " if oneline else "\n"))
    for it in o.items:
        _render_item(w, it, ind + 1, oneline)
    w.w(pad + "}")
    o.span = (s, w.off)
    w.w(sep)


def render(root, imports=("qmluic.QtWidgets",), oneline=False, str_imports=()):
    """Returns the document text; spans are stored on the nodes (byte offsets)."""
    w = _W()
    for i in imports:
        w.w(f"import {i}\n")
    for i in str_imports:
        w.w(f'import "{i}"\n')
    _render_obj(w, root, 0, oneline)
    if oneline:
        w.w("\n")
    return "".join(w.parts)


def qstr(s):
    """QML/JS double-quoted literal denoting exactly `s`."""
    out = []
    for ch in s:
        o = ord(ch)
        if ch in '"\\':
            out.append("\\" + ch)
        elif ch == "\n":
            out.append("\\n")
        elif ch == "\r":
            out.append("\\r")
        elif ch == "\t":
            out.append("\\t")
        elif o < 0x20 or o == 0x7f or o in (0x2028, 0x2029):
            out.append("\\u%04x" % o)
        else:
            out.append(ch)
    return '"' + "".join(out) + '"'


def within(inner, outer):
    return outer[0] <= inner[0] and inner[1] <= outer[1]
