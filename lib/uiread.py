"""Reader for emitted .ui files (expat) and a model of the Qt Designer ui4 form grammar
restricted to what uic's DOM readers accept (E7).

The reader is what "an XML parser" means in the properties: text is what expat hands over
after XML 1.0 normalisation (line ends, attribute-value whitespace, entity expansion).
"""
import xml.parsers.expat


class Elem:
    __slots__ = ("tag", "attrs", "children", "text", "parent", "line")

    def __init__(self, tag, attrs, parent, line):
        self.tag = tag
        self.attrs = attrs
        self.children = []
        self.text = ""
        self.parent = parent
        self.line = line

    def find(self, tag):
        for c in self.children:
            if c.tag == tag:
                return c
        return None

    def findall(self, tag):
        return [c for c in self.children if c.tag == tag]

    def iter(self):
        yield self
        for c in self.children:
            yield from c.iter()

    def path(self):
        p = []
        e = self
        while e is not None:
            n = e.attrs.get("name")
            p.append(e.tag + (f"[{n}]" if n is not None else ""))
            e = e.parent
        return "/".join(reversed(p))

    def to_tuple(self):
        """Canonical structural form (for tree comparison)."""
        return (self.tag, tuple(sorted(self.attrs.items())), self.text if not self.children else "",
                tuple(c.to_tuple() for c in self.children))

    def __repr__(self):
        return f"<{self.tag} {self.attrs}>"


class UiParseError(Exception):
    pass


def parse(text):
    """Parses XML text -> root Elem. Raises UiParseError if not well-formed. Duplicate
    attributes are a well-formedness error in expat already."""
    if isinstance(text, str):
        data = text.encode("utf-8")
    else:
        data = text
    p = xml.parsers.expat.ParserCreate()
    p.buffer_text = True
    p.ordered_attributes = True
    root = [None]
    cur = [None]

    def start(tag, attrs):
        d = {}
        for i in range(0, len(attrs), 2):
            d[attrs[i]] = attrs[i + 1]
        e = Elem(tag, d, cur[0], p.CurrentLineNumber)
        if cur[0] is None:
            if root[0] is not None:
                raise UiParseError("multiple roots")
            root[0] = e
        else:
            cur[0].children.append(e)
        cur[0] = e

    def end(tag):
        cur[0] = cur[0].parent

    def chars(s):
        if cur[0] is not None:
            cur[0].text += s

    p.StartElementHandler = start
    p.EndElementHandler = end
    p.CharacterDataHandler = chars
    try:
        p.Parse(data, True)
    except xml.parsers.expat.ExpatError as e:
        raise UiParseError(str(e))
    if root[0] is None:
        raise UiParseError("no root")
    # whitespace-only text of elements that have children is indentation, drop it
    for e in root[0].iter():
        if e.children and not e.text.strip():
            e.text = ""
    return root[0]


# --------------------------------------------------------------------------- grammar

VALUE_ELEMENTS = {
    "bool", "color", "cstring", "cursor", "cursorShape", "enum", "font", "iconset", "pixmap",
    "palette", "point", "rect", "set", "locale", "sizepolicy", "size", "string", "stringlist",
    "number", "float", "double", "date", "time", "datetime", "pointf", "rectf", "sizef",
    "longlong", "char", "url", "uint", "ulonglong", "brush",
}

TEXT_ONLY = "#text"   # element holds character data only

# tag -> (allowed attributes or None = not examined by uic, allowed child tags or TEXT_ONLY)
# Context-dependent tags ('item', 'color', 'string', 'header') are handled in check_grammar.
GRAMMAR = {
    "ui": ({"version", "language", "displayname", "idbasedtr", "connectslotsbyname", "stdsetdef",
            "stdSetDef"},
           {"author", "comment", "exportmacro", "class", "widget", "layoutdefault", "layoutfunction",
            "pixmapfunction", "customwidgets", "tabstops", "includes", "resources", "connections",
            "designerdata", "slots", "buttongroups"}),
    "class": (None, TEXT_ONLY),
    "widget": ({"class", "name", "native"},
               {"class", "property", "attribute", "row", "column", "item", "layout", "widget",
                "action", "actiongroup", "addaction", "zorder"}),
    "layout": ({"class", "name", "stretch", "rowstretch", "columnstretch", "rowminimumheight",
                "columnminimumwidth"},
               {"property", "attribute", "item"}),
    "layoutitem": ({"row", "column", "rowspan", "colspan", "alignment"},
                   {"widget", "layout", "spacer"}),
    "modelitem": ({"row", "column"}, {"property", "item"}),
    "spacer": ({"name"}, {"property"}),
    "action": ({"name", "menu"}, {"property", "attribute"}),
    "addaction": ({"name"}, set()),
    "property": ({"name", "stdset"}, VALUE_ELEMENTS),
    "attribute": ({"name", "stdset"}, VALUE_ELEMENTS),
    "customwidgets": (None, {"customwidget"}),
    "customwidget": (None, {"class", "extends", "header", "sizehint", "addpagemethod", "container",
                            "slots", "propertyspecifications"}),
    "extends": (None, TEXT_ONLY),
    "header": ({"location"}, TEXT_ONLY),
    "bool": (None, TEXT_ONLY), "cstring": (None, TEXT_ONLY), "cursor": (None, TEXT_ONLY),
    "cursorShape": (None, TEXT_ONLY), "enum": (None, TEXT_ONLY), "set": (None, TEXT_ONLY),
    "number": (None, TEXT_ONLY), "float": (None, TEXT_ONLY), "double": (None, TEXT_ONLY),
    "longlong": (None, TEXT_ONLY), "uint": (None, TEXT_ONLY), "ulonglong": (None, TEXT_ONLY),
    "string": ({"notr", "comment", "extracomment", "id"}, TEXT_ONLY),
    "stringlist": ({"notr", "comment", "extracomment", "id"}, {"string"}),
    "pixmap": ({"resource", "alias"}, TEXT_ONLY),
    "color": ({"alpha"}, {"red", "green", "blue"}),
    "red": (None, TEXT_ONLY), "green": (None, TEXT_ONLY), "blue": (None, TEXT_ONLY),
    "font": (None, {"family", "pointsize", "weight", "italic", "bold", "underline", "strikeout",
                    "antialiasing", "stylestrategy", "kerning", "hintingpreference", "fontweight"}),
    "family": (None, TEXT_ONLY), "pointsize": (None, TEXT_ONLY), "weight": (None, TEXT_ONLY),
    "italic": (None, TEXT_ONLY), "bold": (None, TEXT_ONLY), "underline": (None, TEXT_ONLY),
    "strikeout": (None, TEXT_ONLY), "antialiasing": (None, TEXT_ONLY),
    "stylestrategy": (None, TEXT_ONLY), "kerning": (None, TEXT_ONLY),
    "hintingpreference": (None, TEXT_ONLY), "fontweight": (None, TEXT_ONLY),
    "iconset": ({"theme", "resource"},
                {"normaloff", "normalon", "disabledoff", "disabledon", "activeoff", "activeon",
                 "selectedoff", "selectedon"}),
    "normaloff": ({"resource", "alias"}, TEXT_ONLY), "normalon": ({"resource", "alias"}, TEXT_ONLY),
    "disabledoff": ({"resource", "alias"}, TEXT_ONLY),
    "disabledon": ({"resource", "alias"}, TEXT_ONLY),
    "activeoff": ({"resource", "alias"}, TEXT_ONLY), "activeon": ({"resource", "alias"}, TEXT_ONLY),
    "selectedoff": ({"resource", "alias"}, TEXT_ONLY),
    "selectedon": ({"resource", "alias"}, TEXT_ONLY),
    "sizepolicy": ({"hsizetype", "vsizetype"},
                   {"hsizetype", "vsizetype", "horstretch", "verstretch"}),
    "hsizetype": (None, TEXT_ONLY), "vsizetype": (None, TEXT_ONLY),
    "horstretch": (None, TEXT_ONLY), "verstretch": (None, TEXT_ONLY),
    "size": (None, {"width", "height"}),
    "rect": (None, {"x", "y", "width", "height"}),
    "point": (None, {"x", "y"}),
    "x": (None, TEXT_ONLY), "y": (None, TEXT_ONLY), "width": (None, TEXT_ONLY),
    "height": (None, TEXT_ONLY),
    "palette": (None, {"active", "inactive", "disabled"}),
    "active": (None, {"colorrole", "color"}), "inactive": (None, {"colorrole", "color"}),
    "disabled": (None, {"colorrole", "color"}),
    "colorrole": ({"role"}, {"brush"}),
    "brush": ({"brushstyle"}, {"color", "texture", "gradient"}),
}

# children that may occur at most once under their parent
AT_MOST_ONCE = {
    "ui": {"class", "widget", "customwidgets"},
    "customwidget": {"class", "extends", "header"},
    "color": {"red", "green", "blue"},
    "size": {"width", "height"}, "rect": {"x", "y", "width", "height"},
    "sizepolicy": {"hsizetype", "vsizetype", "horstretch", "verstretch"},
    "palette": {"active", "inactive", "disabled"},
    "colorrole": {"brush"}, "brush": {"color"},
    "font": {"family", "pointsize", "weight", "italic", "bold", "underline", "strikeout",
             "antialiasing", "stylestrategy", "kerning"},
}


def _kind(e):
    """Resolves context-dependent tags to grammar keys."""
    if e.tag == "item":
        if e.parent is not None and e.parent.tag == "layout":
            return "layoutitem"
        return "modelitem"
    return e.tag


def check_grammar(root, type_name=None):
    """Returns a list of (clause, message) problems; empty = conformant."""
    problems = []

    def bad(clause, e, msg):
        problems.append((clause, f"{e.path()} (line {e.line}): {msg}"))

    if root.tag != "ui":
        bad("root", root, "root element is not <ui>")
        return problems
    if root.attrs.get("version") != "4.0":
        bad("root", root, f"version={root.attrs.get('version')!r}")
    classes = root.findall("class")
    if len(classes) != 1:
        bad("root", root, f"{len(classes)} <class> elements")
    elif type_name is not None and classes[0].text != type_name:
        bad("class-name", root, f"<class>{classes[0].text!r} != type name {type_name!r}")
    if len(root.findall("widget")) != 1:
        bad("root", root, f"{len(root.findall('widget'))} root <widget> elements")

    for e in root.iter():
        k = _kind(e)
        g = GRAMMAR.get(k)
        if g is None:
            bad("unknown-element", e, f"element <{e.tag}> is not part of the form grammar")
            continue
        attrs, kids = g
        if attrs is not None:
            for a in e.attrs:
                if a not in attrs:
                    bad("unknown-attribute", e, f"attribute {a!r} not allowed on <{e.tag}>")
        if kids == TEXT_ONLY:
            if e.children:
                bad("nesting", e, f"<{e.tag}> must hold text only")
        else:
            for c in e.children:
                ck = c.tag
                if ck not in kids:
                    bad("nesting", e, f"<{c.tag}> not allowed under <{e.tag}> ({k})")
            if e.text.strip():
                bad("nesting", e, f"stray text {e.text.strip()[:20]!r} in <{e.tag}>")
            once = AT_MOST_ONCE.get(k, ())
            for t in once:
                if len(e.findall(t)) > 1:
                    bad("duplicate-child", e, f"<{t}> occurs {len(e.findall(t))} times")
        if k in ("property", "attribute"):
            if "name" not in e.attrs:
                bad("property-name", e, "no name")
            if len(e.children) != 1:
                bad("one-value", e, f"{len(e.children)} value elements")
        if k == "layoutitem":
            if len(e.children) != 1:
                bad("layout-item", e, f"{len(e.children)} contents in layout <item>")
        if k in ("widget", "layout", "spacer", "action", "modelitem", "brush", "font"):
            for tag in ("property", "attribute"):
                names = [c.attrs.get("name") for c in e.findall(tag)]
                dup = {n for n in names if names.count(n) > 1}
                if dup:
                    bad("duplicate-property", e, f"duplicate <{tag}> names {sorted(dup)}")
        if k in ("widget", "layout"):
            if "class" not in e.attrs or "name" not in e.attrs:
                bad("missing-attribute", e, "class/name missing")
        if k in ("spacer", "action", "addaction"):
            if "name" not in e.attrs:
                bad("missing-attribute", e, "name missing")
    return problems


def named_objects(root):
    """[(kind, name, class, elem)] of widgets, layouts, spacers and actions."""
    out = []
    for e in root.iter():
        if e.tag in ("widget", "layout"):
            out.append((e.tag, e.attrs.get("name"), e.attrs.get("class"), e))
        elif e.tag in ("spacer", "action"):
            out.append((e.tag, e.attrs.get("name"), None, e))
    return out


def find_object(root, name):
    for kind, n, _cls, e in named_objects(root):
        if n == name:
            return e
    return None


def prop(e, name, tag="property"):
    for c in e.findall(tag):
        if c.attrs.get("name") == name:
            return c
    return None
