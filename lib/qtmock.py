"""Generates the Qt API model for one translation unit (E3):
  * class declarations from the type information qmluic itself uses (`vdrive types`: the bundled
    metatypes + fixtures/vtypes.json after metatype_tweak::apply_all), restricted to the transitive
    closure of the classes a header / .ui mentions;
  * ui_<name>.h derived from the emitted .ui (what uic would produce), so that a header naming an
    object the .ui does not declare, or with an incompatible class, fails to compile.
"""
import json
import os
import re
import subprocess

import uiread
import vcommon as vc

CORE_H = os.path.join(vc.VERIF, "engine", "qtmock", "qtmock_core.h")
_types = None

PRIMS = {"int": "int", "uint": "uint", "double": "double", "bool": "bool", "QString": "QString",
         "QStringList": "QStringList", "QVariant": "QVariant", "qreal": "double", "float": "float",
         "void": "void", "qlonglong": "long long", "qulonglong": "unsigned long long",
         "qint64": "long long", "quint64": "unsigned long long", "QList<QString>": "QStringList"}
CONST_REF = ("QString", "QStringList", "QVariant")
METHOD_BODIES = {"VObj::twice": "return a0 * 2;", "VObj::echo": "return a0;"}


def load_types():
    """{class name: class json}; regenerated when the driver binary is newer than the cache."""
    global _types
    if _types is not None:
        return _types
    cache = os.path.join(vc.TARGET, "types.json")
    if (not os.path.exists(cache)) or os.path.getmtime(cache) < os.path.getmtime(vc.VDRIVE_BIN) \
            or os.path.getmtime(cache) < os.path.getmtime(vc.VTYPES):
        data = subprocess.run([vc.VDRIVE_BIN, "types", "--metatypes", vc.METATYPES, "--types", vc.VTYPES],
                              stdout=subprocess.PIPE, check=True).stdout
        tmp = cache + f".{os.getpid()}"
        with open(tmp, "wb") as f:
            f.write(data)
        os.replace(tmp, cache)
    classes = json.load(open(cache))
    _types = {}
    for c in classes:
        _types.setdefault(c["className"], c)
    return _types


def supers(c, types):
    return [s["name"] for s in c.get("superClasses", []) if s.get("access") == "public" and s["name"] in types]


def ancestors(name, types, seen=None):
    seen = seen if seen is not None else []
    for s in supers(types[name], types):
        if s not in seen:
            seen.append(s)
            ancestors(s, types, seen)
    return seen


def find_enum(cls, ename, types):
    """class name owning enum `ename` visible from `cls` (itself or ancestors) or None."""
    for c in [cls] + ancestors(cls, types):
        for e in types[c].get("enums", []):
            if e["name"] == ename:
                return c
    return None


class Gen:
    def __init__(self, header_text=""):
        self.types = load_types()
        self.header_text = header_text
        self.needed = []          # class names in dependency order
        self.opaque = []          # unknown value types
        self.fwd = set()

    # ---- type mapping

    def map_type(self, t, cls):
        """metatype type string -> (C++ type, [class dependencies by value], [forward decls])"""
        t = t.strip()
        if t.startswith("const ") and t.endswith("&"):
            t = t[6:-1].strip()
        if t in PRIMS:
            return PRIMS[t], [], []
        m = re.fullmatch(r"(?:QList|QVector)<(.*)>", t)
        if m:
            inner, deps, fwd = self.map_type(m.group(1), cls)
            return f"QList<{inner}>", deps, fwd
        if t.endswith("*"):
            base = t[:-1].strip()
            if base in self.types:
                return base + "*", [], [base]
            return self.opaque_type(base) + "*", [], []
        if "::" in t:
            owner, en = t.rsplit("::", 1)
            if owner in self.types and any(e["name"] == en for e in self.types[owner].get("enums", [])):
                return t, [owner], []
            return self.opaque_type(t), [], []
        if cls is not None:
            o = find_enum(cls, t, self.types)
            if o is not None:
                return (t if o == cls else f"{o}::{t}"), ([] if o == cls else [o]), []
        if t in self.types:
            return t, [t], []
        return self.opaque_type(t), [], []

    def opaque_type(self, name):
        n = re.sub(r"\W", "_", name)
        if n not in self.opaque:
            self.opaque.append(n)
        return n

    def mentioned(self, name):
        return re.search(r"\b" + re.escape(name) + r"\b", self.header_text) is not None

    # ---- closure

    def need(self, cls, stack=()):
        if cls in self.needed or cls not in self.types or cls in stack:
            return
        c = self.types[cls]
        for s in supers(c, self.types):
            self.need(s, stack + (cls,))
        for p in c.get("properties", []):
            _t, deps, fwd = self.map_type(p["type"], cls)
            for d in deps:
                self.need(d, stack + (cls,))
            self.fwd.update(fwd)
        for kind in ("signals", "slots", "methods"):
            for m in c.get(kind, []):
                if kind != "signals" and not self.mentioned(m["name"]):
                    continue
                for a in m.get("arguments", []):
                    _t, deps, fwd = self.map_type(a["type"], cls)
                    for d in deps:
                        self.need(d, stack + (cls,))
                    self.fwd.update(fwd)
                _t, deps, fwd = self.map_type(m["returnType"], cls)
                for d in deps:
                    self.need(d, stack + (cls,))
                self.fwd.update(fwd)
        if cls not in self.needed:
            self.needed.append(cls)

    # ---- emission

    @staticmethod
    def param(cxx):
        base = cxx
        if base in CONST_REF or base.startswith("QList<") or (base[0].isupper() and not base.endswith("*")
                                                               and "::" not in base and base not in ("QStringList",)):
            return f"const {cxx} &"
        return cxx + " "

    def is_gadget_class(self, cxx):
        return cxx in self.types and not self.is_qobject(cxx)

    def is_qobject(self, cls):
        return cls == "QObject" or "QObject" in ancestors(cls, self.types)

    def emit_enums(self, c):
        out = []
        enums = c.get("enums", [])
        flag_targets = {e.get("alias") for e in enums if e.get("isFlag") and e.get("alias")}
        declared = set()
        for e in enums:
            if e.get("isFlag") and e.get("alias"):
                continue
            vals = []
            for i, v in enumerate(e["values"]):
                if e["name"] in flag_targets and i < 30:
                    vals.append(f"{v} = {1 << i}")
                else:
                    vals.append(f"{v} = {i}" if e["name"] not in flag_targets else f"{v} = {(1 << 30) + i}")
            kw = "enum class" if e.get("isClass") else "enum"
            out.append(f"    {kw} {e['name']} {{ {', '.join(vals)} }};")
            declared.add(e["name"])
        for e in enums:
            if e.get("isFlag") and e.get("alias"):
                if e["alias"] in declared:
                    out.append(f"    typedef {e['alias']} {e['name']};")
                else:
                    out.append(f"    enum {e['name']} {{ {', '.join(e['values'])} }};")
        return out

    def group_overloads(self, methods):
        """Groups metatype entries by name; entries whose argument lists form a prefix chain are one
        C++ function with default arguments (the Qt convention for clicked(bool = false))."""
        by = {}
        for m in methods:
            by.setdefault(m["name"], []).append(m)
        out = []
        for name, ms in by.items():
            ms = sorted(ms, key=lambda m: len(m.get("arguments", [])))
            chains = []
            for m in ms:
                args = [a["type"] for a in m.get("arguments", [])]
                for ch in chains:
                    last = [a["type"] for a in ch[-1].get("arguments", [])]
                    if args[:len(last)] == last and m["returnType"] == ch[-1]["returnType"]:
                        ch.append(m)
                        break
                else:
                    chains.append([m])
            for ch in chains:
                out.append((name, ch[-1], len(ch[0].get("arguments", []))))
        return out

    def emit_class(self, cls):
        c = self.types[cls]
        qobj = self.is_qobject(cls)
        sup = supers(c, self.types)
        if cls == "Qt":
            return ["namespace Qt {"] + [l.replace("    ", "", 1) for l in self.emit_enums(c)] + ["}"]
        head = f"class {cls}"
        bases = [f"public {s}" for s in sup]
        if cls in ("QObject", "QCoreApplication", "QDebug", "QVariant", "QString"):
            return []        # hand-written in qtmock_core.h
        if bases:
            head += " : " + ", ".join(bases)
        out = [head, "{", "public:"]
        if qobj:
            out.append(f"    {cls}() {{}}")
        out += self.emit_enums(c)
        signals = self.group_overloads(c.get("signals", []))
        sig_names = {}
        for name, m, mind in signals:
            sig_names.setdefault(name, []).append((m, mind))
        # properties
        for p in c.get("properties", []):
            cxx, _d, _f = self.map_type(p["type"], cls)
            n = p["name"]
            field = f"m_{re.sub(r'[^A-Za-z0-9_]', '_', n)}"
            out.append(f"    {cxx} {field}{{}};")
            if p.get("read"):
                out.append(f"    {cxx} {p['read']}() const {{ return {field}; }}")
            if p.get("write"):
                notify = ""
                if p.get("notify") and p["notify"] in sig_names:
                    for m, mind in sig_names[p["notify"]]:
                        nargs = len(m.get("arguments", []))
                        if nargs == 0:
                            notify += f" {p['notify']}();"
                        elif nargs >= 1 and self.map_type(m["arguments"][0]["type"], cls)[0] == cxx and mind <= 1:
                            notify += f" {p['notify']}(v" + "".join(", {}" for _ in range(nargs - 1)) + ");"
                show = f'verif::note(vname + ".{p["write"]}(" + verif::showValue(v) + ")");' if qobj else ""
                out.append(f"    void {p['write']}({self.param(cxx)}v) {{ {show} if ({field} == v) return; {field} = v;{notify} }}")
        # signals
        for name, m, mind in signals:
            args = m.get("arguments", [])
            types = [self.map_type(a["type"], cls)[0] for a in args]
            params = []
            for i, t in enumerate(types):
                dflt = " = {}" if i >= mind else ""
                params.append(f"{self.param(t)}a{i}{dflt}")
            ptypes = ", ".join(self.param(t).strip() for t in types)
            pmf = f"static_cast<void ({cls}::*)({ptypes})>(&{cls}::{name})"
            call = ", ".join([pmf] + [f"a{i}" for i in range(len(types))])
            tmpl = ", ".join([cls] + [self.param(t).strip() for t in types])
            out.append(f"    void {name}({', '.join(params)}) {{ this->template activate<{tmpl}>({call}); }}")
        # slots and invokable methods (only those the header mentions)
        props_funcs = {p.get("read") for p in c.get("properties", [])} | {p.get("write") for p in c.get("properties", [])}
        for kind in ("slots", "methods"):
            for name, m, mind in self.group_overloads(c.get(kind, [])):
                if not self.mentioned(name) or name in props_funcs:
                    continue
                args = m.get("arguments", [])
                types = [self.map_type(a["type"], cls)[0] for a in args]
                params = []
                for i, t in enumerate(types):
                    dflt = " = {}" if i >= mind else ""
                    params.append(f"{self.param(t)}a{i}{dflt}")
                ret = self.map_type(m["returnType"], cls)[0]
                shown = ' + ", " + '.join(f"verif::showValue(a{i})" for i in range(len(types))) or '""'
                body = METHOD_BODIES.get(f"{cls}::{name}")
                note = f'verif::note(vname + ".{name}(" + {shown} + ")");' if qobj else ""
                if body is None:
                    body = "" if ret == "void" else f"return {ret}{{}};" if not ret.endswith("*") else "return nullptr;"
                out.append(f"    {ret} {name}({', '.join(params)}) {{ {note} {body} }}")
        if not qobj:
            # value type: comparable, so that setters can detect changes
            fields = [f"m_{re.sub(r'[^A-Za-z0-9_]', '_', p['name'])}" for p in c.get("properties", [])]
            cmp_ = " && ".join(f"{f} == o.{f}" for f in fields) or "true"
            out.append(f"    bool operator==(const {cls} &o) const {{ (void)o; return {cmp_}; }}")
            out.append(f"    bool operator!=(const {cls} &o) const {{ return !(*this == o); }}")
            shown = ' + "," + '.join(f'std::string("{p["name"]}=") + verif::showValue({f})' for p, f in zip(c.get("properties", []), fields)) or '""'
            out.append(f"    std::string vshow() const {{ return std::string(\"{{\") + {shown} + \"}}\"; }}")
        out.append("};")
        return out

    def declarations(self, class_names):
        for n in class_names:
            self.need(n)
        self.need("Qt")
        body = []
        emitted_fwd = []
        for cls in self.needed:
            body += self.emit_class(cls)
        fwd = sorted((self.fwd | set(self.needed)) - {"Qt", "QObject", "QCoreApplication", "QDebug", "QVariant", "QString"})
        lines = ['#include "qtmock_core.h"']
        for o in self.opaque:
            lines.append(f"struct {o} {{ bool operator==(const {o} &) const {{ return true; }} bool operator!=(const {o} &) const {{ return false; }} }};")
        for f in fwd:
            lines.append(f"class {f};")
        # namespace Qt must come first (its enums are used everywhere)
        qt = [c for c in self.needed if c == "Qt"]
        rest = [c for c in self.needed if c != "Qt"]
        body = []
        for cls in qt + rest:
            body += self.emit_class(cls)
        return "\n".join(lines + body) + "\n"


def classes_in_ui(ui_root):
    names = []
    for kind, _n, cls, _e in uiread.named_objects(ui_root):
        if kind in ("widget", "layout") and cls:
            names.append(cls)
        elif kind == "spacer":
            names.append("QSpacerItem")
        elif kind == "action":
            names.append("QAction")
    cws = ui_root.find("customwidgets")
    custom = []
    if cws is not None:
        for cw in cws.findall("customwidget"):
            custom.append((cw.find("class").text, cw.find("extends").text))
            names.append(cw.find("extends").text)
    return names, custom


def ui_header(ui_root, type_name):
    """What uic would declare: namespace Ui { class <Type> { public: <Class> *<name>; ... }; }"""
    root_w = ui_root.find("widget")
    members = []
    for kind, n, cls, e in uiread.named_objects(ui_root):
        if e is root_w:
            continue
        if kind == "spacer":
            cls = "QSpacerItem"
        elif kind == "action":
            cls = "QAction"
        members.append((cls, n))
    _names, custom = classes_in_ui(ui_root)
    lines = ["#pragma once"]
    for cls, ext in custom:
        lines.append(f"class {cls} : public {ext} {{ public: {cls}() {{}} }};")
    lines.append("namespace Ui {")
    lines.append(f"class {type_name} {{")
    lines.append("public:")
    for cls, n in members:
        lines.append(f"    {cls} *{n} = nullptr;")
    lines.append("};")
    lines.append("}")
    return "\n".join(lines) + "\n", members, root_w.attrs.get("class"), root_w.attrs.get("name")


def classes_in_header(header, types):
    """Class names the header mentions (QOverload<..>::of(&C::sig), static_cast<C*>, locals)."""
    out = []
    for m in re.finditer(r"\b([A-Z]\w*)\b", header):
        n = m.group(1)
        if n in types and n not in out:
            out.append(n)
    return out
