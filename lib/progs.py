"""Control-flow skeleton programs (family L2 of the design): all statement trees with <= k nodes
over  effect | expression-statement | return | if | if/else | switch(case*/default, any position)
| break | block | let+use | shadowing block,  rendered so that every condition reads a distinct
property (every path is drivable) and every leaf writes a distinct constant (the path taken is
observable).  Shared by C01 (values), C06 (control flow), C13 (callbacks) and a reference
interpreter for them.

Shapes (tuples):
  ('A',) effect     ('E',) expression statement     ('R',) return     ('B',) break
  ('L',) let v = K; then use                         ('I', cond, body) ('IE', cond, then, else)
  ('SW', [(label, body)...]) label in 'c','d'        ('BL', body)      ('SH', body) shadowing block
cond: 'c' | 'n' (not) | 'a' (and) | 'o' (or) | 't' (ternary) | 'e' (int comparison)
"""
import itertools

CONDS_FULL = ["c", "n", "a", "o", "t", "e"]


def _lists(n, in_switch, conds, cache):
    """All statement lists with exactly n nodes."""
    key = ("L", n, in_switch)
    if key in cache:
        return cache[key]
    out = []
    if n == 0:
        out.append([])
    else:
        for first in range(1, n + 1):
            for s in _stmts(first, in_switch, conds, cache):
                for rest in _lists(n - first, in_switch, conds, cache):
                    out.append([s] + rest)
    cache[key] = out
    return out


def _stmts(n, in_switch, conds, cache):
    """All statements with exactly n nodes."""
    key = ("S", n, in_switch)
    if key in cache:
        return cache[key]
    out = []
    if n == 1:
        out += [("A",), ("E",), ("R",), ("L",)]
        if in_switch:
            out.append(("B",))
        out.append(("BL", []))
        out.append(("SW", []))
    if n >= 1:
        body_n = n - 1
        if body_n >= 1:
            for body in _lists(body_n, in_switch, conds, cache):
                out.append(("BL", body))
                out.append(("SH", body))
                for c in conds:
                    out.append(("I", c, body))
            for k in range(1, body_n):
                for a in _lists(k, in_switch, conds, cache):
                    for b in _lists(body_n - k, in_switch, conds, cache):
                        for c in conds[:2]:
                            out.append(("IE", c, a, b))
        if n >= 2:
            for c in conds[:1]:
                out.append(("I", c, []))
                if n >= 2 and body_n >= 1:
                    for b in _lists(body_n, in_switch, conds, cache):
                        out.append(("IE", c, [], b))
        # switch: clauses consume one node each (+ their bodies)
        if body_n >= 1:
            for nclauses in range(1, body_n + 1):
                rest = body_n - nclauses
                for split in _compositions(rest, nclauses):
                    bodies = [_lists(m, True, conds, cache) for m in split]
                    for combo in itertools.product(*bodies):
                        # default in every position, or absent
                        for dpos in [None] + list(range(nclauses)):
                            clauses = [("d" if i == dpos else "c", list(b)) for i, b in enumerate(combo)]
                            out.append(("SW", clauses))
    cache[key] = out
    return out


def _compositions(total, parts):
    """All ways to write total as an ordered sum of `parts` non-negative integers."""
    if parts == 1:
        yield (total,)
        return
    for first in range(total + 1):
        for rest in _compositions(total - first, parts - 1):
            yield (first,) + rest


def size(s):
    """Node count of one statement shape."""
    tag = s[0]
    if tag in ("A", "E", "R", "B", "L"):
        return 1
    if tag in ("BL", "SH"):
        return 1 + sum(size(x) for x in s[1])
    if tag == "I":
        return 1 + sum(size(x) for x in s[2])
    if tag == "IE":
        return 1 + sum(size(x) for x in s[2]) + sum(size(x) for x in s[3])
    if tag == "SW":
        return 1 + sum(1 + sum(size(x) for x in b) for _l, b in s[1])
    raise KeyError(tag)


def skeletons(max_nodes, conds=("c", "a", "t")):
    """Yields statement lists with 1..max_nodes nodes, simplest first."""
    cache = {}
    for n in range(1, max_nodes + 1):
        for l in _lists(n, False, list(conds), cache):
            yield l


# --------------------------------------------------------------------------- rendering

class Renderer:
    """Renders a skeleton into QML/JS text for a given context.
    context 'value': int-valued binding body  (effect = `r = K;`, expression = `K;`, return K)
    context 'void' : callback body            (effect = `a.done(K);`, expression = `a.say("K");`,
                                               return = `return;`)"""

    BOOLS = ["a.b", "a.c", "b0.b", "b0.c", "c0.b", "c0.c"]
    INTS = ["a.i", "a.j", "b0.i", "b0.j", "c0.i", "c0.j"]

    def __init__(self, context, wrapper="ret", label_style="const", void_expr="call", value_style="int"):
        self.context = context
        self.wrapper = wrapper
        # value_style 'tr-same': a string-valued body in which every constant is the same qsTr("same") call
        # (equal sub-expressions repeated at positions that do not dominate each other)
        self.value_style = value_style
        self.void_expr = void_expr      # expression statements of callbacks: 'call' | 'literal' | 'enum' | 'object' | 'read'

        self.label_style = label_style      # case labels: 'const' | 'ternary' | 'and' | 'or' (labels spanning several blocks)
        self.k = 0
        self.nb = 0
        self.ni = 0
        self.nv = 0
        self.reads = []      # property reads in order of appearance (for state enumeration)

    def const(self):
        self.k += 1
        return self.k

    def bool_read(self):
        p = self.BOOLS[self.nb % len(self.BOOLS)]
        self.nb += 1
        if p not in self.reads:
            self.reads.append(p)
        return p

    def int_read(self):
        p = self.INTS[self.ni % len(self.INTS)]
        self.ni += 1
        if p not in self.reads:
            self.reads.append(p)
        return p

    def cond(self, c):
        """-> (text, ast) where ast is evaluated by the reference interpreter."""
        if c == "c":
            p = self.bool_read()
            return p, ("rd", p)
        if c == "n":
            p = self.bool_read()
            return f"!{p}", ("not", ("rd", p))
        if c == "a":
            p, q = self.bool_read(), self.bool_read()
            return f"{p} && {q}", ("and", ("rd", p), ("rd", q))
        if c == "o":
            p, q = self.bool_read(), self.bool_read()
            return f"{p} || {q}", ("or", ("rd", p), ("rd", q))
        if c == "t":
            p, q, r = self.bool_read(), self.bool_read(), self.bool_read()
            return f"({p} ? {q} : {r})", ("tern", ("rd", p), ("rd", q), ("rd", r))
        if c == "e":
            p = self.int_read()
            return f"{p} == 1", ("eq", ("rd", p), ("k", 1))
        raise KeyError(c)

    def stmts(self, lst, ind):
        out, ast = [], []
        for s in lst:
            t, a = self.stmt(s, ind)
            out.append(t)
            ast.append(a)
        return "\n".join(out), ast

    def stmt(self, s, ind):
        pad = "    " * ind
        tag = s[0]
        v = self.context == "value"
        if v and self.value_style == "tr-same" and tag in ("A", "E", "R"):
            text = 'qsTr("same")'
            return {"A": (f"{pad}r = {text};", ("set", "r", ("k", "same"))), "E": (f"{pad}{text};", ("expr", ("k", "same"))),
                    "R": (f"{pad}return {text};", ("ret", ("k", "same")))}[tag]
        if tag == "A":
            k = self.const()
            return (f"{pad}r = {k};", ("set", "r", ("k", k))) if v else \
                (f"{pad}a.done({k});", ("call", "done", ("k", k)))
        if tag == "E":
            k = self.const()
            if v:
                return f"{pad}{k};", ("expr", ("k", k))
            if self.void_expr == "call":
                return f'{pad}a.say("{k}");', ("call", "say", ("k", str(k)))
            # a value that is computed and dropped: no effect at all
            text = {"literal": f'"keep{k}"', "enum": "Qt.AlignLeft", "object": "b0", "read": "b0.i"}[self.void_expr]
            return f"{pad}{text};", ("expr", ("k", k))
        if tag == "R":
            if v:
                k = self.const()
                return f"{pad}return {k};", ("ret", ("k", k))
            return f"{pad}return;", ("ret", None)
        if tag == "B":
            return f"{pad}break;", ("break",)
        if tag == "L":
            k = self.const()
            self.nv += 1
            name = f"v{self.nv}"
            if v:
                return (f"{pad}let {name} = {k}; r = {name};",
                        ("seq", [("let", name, ("k", k)), ("set", "r", ("var", name))]))
            return (f"{pad}const {name} = {k}; a.done({name});",
                    ("seq", [("let", name, ("k", k)), ("call", "done", ("var", name))]))
        if tag == "BL":
            body, a = self.stmts(s[1], ind + 1)
            return f"{pad}{{\n{body}\n{pad}}}" if s[1] else f"{pad}{{ }}", ("block", a)
        if tag == "SH":
            k = self.const()
            body, a = self.stmts(s[1], ind + 1)
            if v:
                return (f"{pad}{{\n{pad}    let r = {k};\n{body}\n{pad}}}",
                        ("block", [("let", "r", ("k", k))] + a))
            self.nv += 1
            name = f"v{self.nv}"
            return (f"{pad}{{\n{pad}    let {name} = {k};\n{body}\n{pad}    a.done({name});\n{pad}}}",
                    ("block", [("let", name, ("k", k))] + a + [("call", "done", ("var", name))]))
        if tag == "I":
            ct, ca = self.cond(s[1])
            body, a = self.stmts(s[2], ind + 1)
            return f"{pad}if ({ct}) {{\n{body}\n{pad}}}", ("if", ca, a, None)
        if tag == "IE":
            ct, ca = self.cond(s[1])
            b1, a1 = self.stmts(s[2], ind + 1)
            b2, a2 = self.stmts(s[3], ind + 1)
            return (f"{pad}if ({ct}) {{\n{b1}\n{pad}}} else {{\n{b2}\n{pad}}}", ("if", ca, a1, a2))
        if tag == "SW":
            subj = self.int_read()
            lines = [f"{pad}switch ({subj}) {{"]
            clauses = []
            n = 0
            for lab, body in s[1]:
                bt, ba = self.stmts(body, ind + 1)
                if lab == "c":
                    n += 1
                    if self.label_style == "const":
                        lines.append(f"{pad}case {n}:")
                        clauses.append((("k", n), ba))
                    else:
                        if self.label_style == "ternary":
                            p_ = self.bool_read()
                            ct, ca = p_, ("rd", p_)
                        else:
                            ct, ca = self.cond("a" if self.label_style == "and" else "o")
                        lines.append(f"{pad}case (({ct}) ? {n} : {n + 10}):")
                        clauses.append((("tern", ca, ("k", n), ("k", n + 10)), ba))
                else:
                    lines.append(f"{pad}default:")
                    clauses.append((None, ba))
                if bt:
                    lines.append(bt)
            lines.append(f"{pad}}}")
            return "\n".join(lines), ("switch", ("rd", subj), clauses)
        raise KeyError(tag)

    def program(self, skeleton):
        """-> (source text of the binding value / handler body, reference AST)"""
        body, ast = self.stmts(skeleton, 2)
        if self.context == "value":
            if self.value_style == "tr-same":
                text = "{\n        let r = \"\";\n" + body + ("\n        return r;" if self.wrapper == "ret" else "") + "\n    }"
            elif self.wrapper == "ret":
                text = "{\n        let r = 0;\n" + body + "\n        return r;\n    }"
                ast = [("let", "r", ("k", 0))] + ast + [("ret", ("var", "r"))]
            elif self.wrapper == "completion":
                text = "{\n        let r = 0;\n" + body + "\n        r;\n    }"
                ast = [("let", "r", ("k", 0))] + ast + [("expr", ("var", "r"))]
            else:   # bare: the skeleton itself decides what is returned
                text = "{\n        let r = 0;\n" + body + "\n    }"
                ast = [("let", "r", ("k", 0))] + ast
        else:
            text = "{\n" + body + "\n    }"
        return text, ast


# --------------------------------------------------------------------------- reference interpreter

class Undefined(Exception):
    pass


class _Return(Exception):
    def __init__(self, v):
        self.v = v


class _Break(Exception):
    pass


def ref_eval(ast, state, trace=None):
    """Direct interpreter of the reference AST.  state: {'a.b': True, 'a.i': 3, ...}.
    Returns the value of the body: its `return` value or its completion value (None = void).
    Side effects are appended to `trace` as (method, argument)."""
    trace = trace if trace is not None else []
    completion = [None]

    def ev(e, env):
        tag = e[0]
        if tag == "k":
            return e[1]
        if tag == "rd":
            return state[e[1]]
        if tag == "var":
            for scope in reversed(env):
                if e[1] in scope:
                    return scope[e[1]]
            raise Undefined(e[1])
        if tag == "not":
            return not ev(e[1], env)
        if tag == "and":
            return ev(e[1], env) and ev(e[2], env)
        if tag == "or":
            return ev(e[1], env) or ev(e[2], env)
        if tag == "tern":
            return ev(e[2], env) if ev(e[1], env) else ev(e[3], env)
        if tag == "eq":
            return ev(e[1], env) == ev(e[2], env)
        raise KeyError(tag)

    def run(lst, env):
        for s in lst:
            tag = s[0]
            if tag == "let":
                env[-1][s[1]] = ev(s[2], env)
                completion[0] = None
            elif tag == "set":
                v = ev(s[2], env)
                for scope in reversed(env):
                    if s[1] in scope:
                        scope[s[1]] = v
                        break
                else:
                    raise Undefined(s[1])
                completion[0] = None     # assignment is a void expression in qmluic
            elif tag == "expr":
                completion[0] = ("v", ev(s[1], env))
            elif tag == "call":
                trace.append((s[1], ev(s[2], env)))
                completion[0] = None
            elif tag == "ret":
                raise _Return(ev(s[1], env) if s[1] is not None else None)
            elif tag == "break":
                raise _Break()
            elif tag == "seq":
                run(s[1], env)
            elif tag == "block":
                run(s[1], env + [{}])
            elif tag == "if":
                if ev(s[1], env):
                    run(s[2], env)
                elif s[3] is not None:
                    run(s[3], env)
            elif tag == "switch":
                v = ev(s[1], env)
                idx = None
                for i, (lab, _b) in enumerate(s[2]):
                    if lab is not None and ev(lab, env) == v:
                        idx = i
                        break
                if idx is None:
                    for i, (lab, _b) in enumerate(s[2]):
                        if lab is None:
                            idx = i
                            break
                if idx is not None:
                    try:
                        for (_lab, b) in s[2][idx:]:
                            run(b, env)
                    except _Break:
                        pass
            else:
                raise KeyError(tag)

    try:
        run(ast, [{}])
    except _Return as r:
        return r.v
    if completion[0] is not None:
        return completion[0][1]
    return None
