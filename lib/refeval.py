"""Reference semantics of qmluic expressions over object states (E6 eval): a direct AST
interpreter over Python values with explicit *undefined* results.  Shares no code with qmluic.

AST:
  ('lit', kind, value)                 kind in I U D B S E F P L  (integer literals are ('lit','n',v))
  ('rd', obj_expr, prop)               property read; obj_expr = ('obj', name) or another expression
  ('obj', name)                        object reference by id
  ('un', op, e) ('bin', op, l, r) ('tern', c, a, b) ('as', e, target)
  ('call', 'Math.max'|'Math.min', [e, e])
  ('meth', e, 'isEmpty'|'arg', [args])
  ('sub', e, idx)  ('list', [e...])
State: {'a.i': 3, 'a.p': 'b0' | None, 'a.sl': ('x','y'), ...}; enums are ints.
Kinds of properties of VObj (fixtures/vtypes.json) are in PROP_KIND.
"""
import math

INT_MIN, INT_MAX = -(1 << 31), (1 << 31) - 1
UINT_MAX = (1 << 32) - 1


class Undefined(Exception):
    pass


PROP_KIND = {"i": "I", "j": "I", "o": "I", "k": "I", "n": "I", "u": "U", "d": "D", "b": "B", "c": "B",
             "s": "S", "t": "S", "e": "E", "e2": "E2", "f": "F", "p": "P", "q": "P", "sl": "L", "v": "V",
             "ri": "I", "ru": "U", "rd": "D", "rb": "B", "rs": "S", "re": "E", "rf": "F", "rp": "P", "rsl": "L"}
ENUMS = {"VObj.M0": 0, "VObj.M1": 1, "VObj.M2": 2, "VObj.N0": 0, "VObj.N1": 1,
         "VObj.F0": 1, "VObj.F1": 2, "VObj.F2": 4}


def kind_of(e):
    tag = e[0]
    if tag == "lit":
        return e[1]
    if tag == "obj":
        return "P"
    if tag == "rd":
        return PROP_KIND[e[2]]
    if tag == "un":
        return "B" if e[1] == "!" else kind_of(e[2])
    if tag == "bin":
        if e[1] in ("==", "!=", "<", "<=", ">", ">=", "&&", "||"):
            return "B"
        k = kind_of(e[2])
        return kind_of(e[3]) if k in ("n", "s") and e[1] not in ("<<", ">>") else k
    if tag == "tern":
        k = kind_of(e[2])
        return kind_of(e[3]) if k in ("n", "s", "null") else k
    if tag == "as":
        return {"int": "I", "uint": "U", "double": "D", "bool": "B", "QString": "S"}[e[2]]
    if tag == "call":
        k = kind_of(e[2][0])
        return kind_of(e[2][1]) if k == "n" else k
    if tag == "meth":
        return "B" if e[2] == "isEmpty" else "S"
    if tag == "sub":
        return "S"
    if tag == "list":
        return "L"
    raise KeyError(tag)


def _fit(kind, v):
    if kind in ("I", "n"):
        if not (INT_MIN <= v <= INT_MAX):
            raise Undefined("int overflow")
    elif kind == "U":
        if not (0 <= v <= UINT_MAX):
            raise Undefined("uint wrap")
    return v


def _tdiv(a, b):
    q = abs(a) // abs(b)
    return q if (a < 0) == (b < 0) else -q


def fmt_g(v):
    s = "%g" % v
    return s


def ev(e, st):
    tag = e[0]
    if tag == "lit":
        return e[2]
    if tag == "obj":
        return e[1]
    if tag == "rd":
        o = ev(e[1], st)
        if o is None:
            raise Undefined("null dereference")
        return st[f"{o}.{e[2]}"]
    if tag == "un":
        v = ev(e[2], st)
        k = kind_of(e[2])
        op = e[1]
        if op == "!":
            return not v
        if op == "+":
            return v
        if op == "-":
            if k == "D":
                return -v
            return _fit("U" if k == "U" else "I", -v)
        if op == "~":
            if k == "U":
                return v ^ UINT_MAX
            return ~v
    if tag == "bin":
        op = e[1]
        if op == "&&":
            return bool(ev(e[2], st)) and bool(ev(e[3], st))
        if op == "||":
            return bool(ev(e[2], st)) or bool(ev(e[3], st))
        a, b = ev(e[2], st), ev(e[3], st)
        k = kind_of(e)
        kk = kind_of(e[2])
        if kk in ("n", "s"):
            kk = kind_of(e[3])
        if op in ("==", "!=", "<", "<=", ">", ">="):
            if op == "==":
                return a == b
            if op == "!=":
                return a != b
            if kk in ("S", "s"):
                a, b = utf16(a), utf16(b)
            return {"<": lambda: a < b, "<=": lambda: a <= b, ">": lambda: a > b, ">=": lambda: a >= b}[op]()
        if op == "+":
            if kk in ("S", "s"):
                return a + b
            if kk == "D":
                return _finite(a + b)
            return _fit(kk, a + b)
        if op == "-":
            return _finite(a - b) if kk == "D" else _fit(kk, a - b)
        if op == "*":
            return _finite(a * b) if kk == "D" else _fit(kk, a * b)
        if op == "/":
            if kk == "D":
                if b == 0:
                    raise Undefined("float division by zero")
                return _finite(a / b)
            if b == 0:
                raise Undefined("division by zero")
            return _fit(kk, _tdiv(a, b))
        if op == "%":
            if kk == "D":
                raise Undefined("double %")
            if b == 0:
                raise Undefined("modulo by zero")
            if kk != "U" and a == INT_MIN and b == -1:
                raise Undefined("INT_MIN % -1")
            return a - b * _tdiv(a, b)
        if op in ("&", "|", "^"):
            if kk == "B":
                return {"&": a and b, "|": a or b, "^": a != b}[op]
            return {"&": a & b, "|": a | b, "^": a ^ b}[op]
        if op in ("<<", ">>"):
            if not (0 <= b <= 31):
                raise Undefined("shift count")
            if op == ">>":
                return a >> b
            if a < 0:
                raise Undefined("left shift of a negative")
            return _fit(kk, a << b)
        raise KeyError(op)
    if tag == "tern":
        return ev(e[2], st) if ev(e[1], st) else ev(e[3], st)
    if tag == "as":
        v = ev(e[1], st)
        k = kind_of(e[1])
        t = e[2]
        if t == "int":
            if k == "D":
                if math.isnan(v) or not (INT_MIN - 1 < v < INT_MAX + 1):
                    raise Undefined("double out of int range")
                return int(v)
            if k == "U":
                return _fit("I", v)
            return int(v)
        if t == "uint":
            if k == "D":
                if math.isnan(v) or not (-1 < v < UINT_MAX + 1):
                    raise Undefined("double out of uint range")
                return int(v)
            return _fit("U", int(v))
        if t == "double":
            return float(v)
        return v
    if tag == "call":
        a, b = ev(e[2][0], st), ev(e[2][1], st)
        return max(a, b) if e[1] == "Math.max" else min(a, b)
    if tag == "meth":
        v = ev(e[1], st)
        if e[2] == "isEmpty":
            return len(v) == 0
        if e[2] == "arg":
            a = ev(e[3][0], st)
            ak = kind_of(e[3][0])
            text = a if ak in ("S", "s") else (fmt_g(a) if ak == "D" else str(a))
            return qt_arg(v, text)
    if tag == "sub":
        l = ev(e[1], st)
        i = ev(e[2], st)
        if not (0 <= i < len(l)):
            raise Undefined("subscript out of range")
        return l[i]
    if tag == "list":
        return tuple(ev(x, st) for x in e[1])
    raise KeyError(tag)


def _finite(v):
    if math.isinf(v) or math.isnan(v):
        raise Undefined("non-finite float")
    return v


def qt_arg(s, a):
    """QString::arg: replaces every occurrence of the lowest-numbered %N (1..99)."""
    import re
    nums = [int(m.group(1)) for m in re.finditer(r"%(\d{1,2})", s)]
    nums = [n for n in nums if n >= 1]
    if not nums:
        return s
    low = min(nums)
    return re.sub(r"%(\d{1,2})", lambda m: a if int(m.group(1)) == low else m.group(0), s)


def show(e):
    tag = e[0]
    if tag == "lit":
        k, v = e[1], e[2]
        if len(e) > 3:
            return e[3]
        if k in ("I", "n", "U"):
            return str(v)          # negative literals are spelled -N (the folder sees unary minus)
        if k == "D":
            s = repr(float(v))
            if "e" not in s and "." not in s:
                s += ".0"
            return s
        if k == "B":
            return "true" if v else "false"
        if k in ("S", "s"):
            return '"' + v.replace("\\", "\\\\").replace('"', '\\"') + '"'
        if k == "null":
            return "null"
        raise KeyError(k)
    if tag == "obj":
        return e[1]
    if tag == "rd":
        return f"{show(e[1])}.{e[2]}"
    if tag == "un":
        return f"{e[1]}({show(e[2])})"
    if tag == "bin":
        return f"({show(e[2])} {e[1]} {show(e[3])})"
    if tag == "tern":
        return f"({show(e[1])} ? {show(e[2])} : {show(e[3])})"
    if tag == "as":
        return f"({show(e[1])} as {e[2]})"
    if tag == "call":
        return f"{e[1]}({', '.join(show(x) for x in e[2])})"
    if tag == "meth":
        return f"{show(e[1])}.{e[2]}({', '.join(show(x) for x in e[3])})"
    if tag == "sub":
        return f"{show(e[1])}[{show(e[2])}]"
    if tag == "list":
        return "[" + ", ".join(show(x) for x in e[1]) + "]"
    raise KeyError(tag)


def reads(e, out=None):
    """Property reads 'obj.prop' with a *named* object base, in order; chains contribute every link."""
    out = out if out is not None else []
    tag = e[0]
    if tag == "rd":
        reads(e[1], out)
        base = e[1]
        if base[0] == "obj":
            key = f"{base[1]}.{e[2]}"
            if key not in out:
                out.append(key)
        else:
            # read through a pointer: every object the pointer may denote
            key = f"*.{e[2]}"
            if key not in out:
                out.append(key)
    else:
        for x in e[1:]:
            if isinstance(x, tuple) and x and isinstance(x[0], str) and x[0] in (
                    "lit", "obj", "rd", "un", "bin", "tern", "as", "call", "meth", "sub", "list"):
                reads(x, out)
            elif isinstance(x, list):
                for y in x:
                    reads(y, out)
    return out


DOMAINS = {
    "I": [-2, -1, 0, 1, 2, 3, 7], "U": [0, 1, 2, 3], "B": [False, True],
    "D": [-1.5, 0.0, 0.5, 2.0], "S": ["", "a", "b", "%1"], "E": [0, 1, 2], "E2": [0, 1], "F": [0, 1, 3, 4],
    "P": [None, "a", "b0"], "L": [(), ("x",), ("x", "y")],
}


def cxx_value(kind, v):
    """C++ expression denoting a reference value of the given kind."""
    import harness
    if kind in ("I", "n"):
        return str(v) if v > INT_MIN else "(-2147483647 - 1)"
    if kind == "U":
        return f"{v}u"
    if kind == "B":
        return "true" if v else "false"
    if kind == "D":
        return f"{float(v).hex()}" if not float(v).is_integer() or True else str(v)
    if kind in ("S", "s"):
        return harness.cxx_str(v)
    if kind == "E":
        return f"VObj::Mode({v})"
    if kind == "E2":
        return f"VObj::Mode2({v})"
    if kind == "F":
        return f"VObj::Flags({v})"
    if kind == "P":
        return "nullptr" if v is None else f"{v}"
    if kind == "L":
        return "QStringList{" + ", ".join(harness.cxx_str(x) for x in v) + "}"
    raise KeyError(kind)


def show_value(kind, v):
    """The string verif::showValue prints for a value (see qtmock_core.h)."""
    if kind in ("I", "n"):
        return str(v)
    if kind == "U":
        return f"{v}u"
    if kind == "B":
        return "true" if v else "false"
    if kind == "D":
        return c_hexfloat(v)
    if kind in ("S", "s"):
        return "s:" + "".join("%04x" % u for u in utf16(v))
    if kind in ("E", "E2", "F"):
        return f"e{v}"
    if kind == "P":
        return "@null" if v is None else f"@{v}"
    if kind == "L":
        return "[" + "".join("".join("%04x" % u for u in utf16(x)) + "," for x in v) + "]"
    raise KeyError(kind)


def utf16(s):
    b = s.encode("utf-16-be", "surrogatepass")
    return [b[i] << 8 | b[i + 1] for i in range(0, len(b), 2)]


def c_hexfloat(v):
    """glibc printf("%a") rendering of a double."""
    if v == 0:
        return "0x0p+0"       # the sign of zero is not observable through a Qt setter (-0.0 == 0.0)
    h = float(v).hex()          # e.g. 0x1.8000000000000p+0
    sign = "-" if h.startswith("-") else ""
    h = h.lstrip("-")
    mant, exp = h.split("p")
    if "." in mant:
        ip, fp = mant.split(".")
        fp = fp.rstrip("0")
        mant = ip + ("." + fp if fp else "")
    return f"{sign}{mant}p{int(exp):+d}"
