"""Reference semantics for *constant* expressions (C03): 64-bit signed integers, IEEE doubles,
bools, strings.  Results:  ('int', v) ('float', v) ('bool', v) ('str', v) ('null',)
or UNDEF (value undefined: must be rejected), TYPE (violates the typing rules: C05's concern),
UNSPEC (documentation is silent: not judged)."""
import math

UNDEF = ("UNDEF",)
TYPE = ("TYPE",)
UNSPEC = ("UNSPEC",)
I64_MIN, I64_MAX = -(1 << 63), (1 << 63) - 1


def lit(v):
    if isinstance(v, bool):
        return ("bool", v)
    if isinstance(v, int):
        return ("int", v)
    if isinstance(v, float):
        return ("float", v)
    if isinstance(v, str):
        return ("str", v)
    if v is None:
        return ("null",)
    raise TypeError(v)


def _int(v):
    return ("int", v) if I64_MIN <= v <= I64_MAX else UNDEF


def _trunc_div(a, b):
    q = abs(a) // abs(b)
    return q if (a < 0) == (b < 0) else -q


def unary(op, a):
    if a in (UNDEF, TYPE, UNSPEC):
        return a
    k = a[0]
    if op == "+":
        return a if k in ("int", "float") else TYPE
    if op == "-":
        if k == "int":
            return _int(-a[1])
        if k == "float":
            return ("float", -a[1])
        return TYPE
    if op == "~":
        return ("int", ~a[1]) if k == "int" else TYPE
    if op == "!":
        return ("bool", not a[1]) if k == "bool" else TYPE
    raise KeyError(op)


def binary(op, a, b):
    for x in (a, b):
        if x in (UNDEF, TYPE, UNSPEC):
            return x
    ka, kb = a[0], b[0]
    if op in ("+", "-", "*", "/", "%"):
        if ka == kb == "int":
            x, y = a[1], b[1]
            if op == "+":
                return _int(x + y)
            if op == "-":
                return _int(x - y)
            if op == "*":
                return _int(x * y)
            if y == 0:
                return UNDEF
            if op == "/":
                return _int(_trunc_div(x, y))
            if x == I64_MIN and y == -1:
                return UNSPEC          # mathematically 0, but the quotient overflows
            return ("int", x - y * _trunc_div(x, y))
        if ka == kb == "float":
            x, y = a[1], b[1]
            try:
                if op == "+":
                    r = x + y
                elif op == "-":
                    r = x - y
                elif op == "*":
                    r = x * y
                elif op == "/":
                    if y == 0.0:
                        return ("nonfinite",)
                    r = x / y
                else:
                    if y == 0.0:
                        return ("nonfinite",)
                    return UNSPEC      # '%' on doubles is not documented
            except OverflowError:
                return ("nonfinite",)
            if math.isinf(r) or math.isnan(r):
                return ("nonfinite",)
            return ("float", r)
        if ka == kb == "str":
            return ("str", a[1] + b[1]) if op == "+" else TYPE
        return TYPE
    if op in ("&", "^", "|"):
        if ka == kb == "int":
            x, y = a[1], b[1]
            return ("int", {"&": x & y, "^": x ^ y, "|": x | y}[op])
        if ka == kb == "bool":
            return UNSPEC
        return TYPE
    if op in ("<<", ">>"):
        if ka == kb == "int":
            x, y = a[1], b[1]
            if y < 0 or y >= 64:
                return UNDEF
            if op == ">>":
                return ("int", x >> y)
            return _int(x << y)
        return TYPE
    if op == ">>>":
        # ECMAScript: ToUint32(x) >>> (y & 31).  Judged where that meaning is beyond doubt (x an int32, 0 <= y < 32);
        # elsewhere the 64-bit integers of the subset make the intent unclear
        if ka == kb == "int":
            x, y = a[1], b[1]
            if -(1 << 31) <= x < (1 << 31) and 0 <= y < 32:
                return ("int", (x & 0xffffffff) >> y)
            return UNSPEC
        return TYPE
    if op in ("==", "!=", "<", "<=", ">", ">="):
        if ka != kb:
            return TYPE
        if ka == "null":
            return UNSPEC
        if ka == "bool" and op not in ("==", "!="):
            return UNSPEC
        x, y = a[1], b[1]
        return ("bool", {"==": x == y, "!=": x != y, "<": x < y, "<=": x <= y, ">": x > y,
                         ">=": x >= y}[op])
    raise KeyError(op)


BINOPS = ["+", "-", "*", "/", "%", "&", "^", "|", "<<", ">>", "==", "!=", "<", "<=", ">", ">="]
UNOPS = ["+", "-", "~", "!"]


def spell(v):
    """Source spelling of a literal value (ints non-negative only; negatives via unary minus)."""
    k = v[0]
    if k == "int":
        return str(v[1])
    if k == "float":
        s = repr(v[1])
        if "e" in s or "." in s:
            return s
        return s + ".0"
    if k == "bool":
        return "true" if v[1] else "false"
    if k == "str":
        return '"' + v[1] + '"'
    if k == "null":
        return "null"
    raise KeyError(k)
