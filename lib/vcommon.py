"""Shared plumbing for the /verif checks: builds, the vdrive client, sharded execution,
verdicts (VIOLATION / KNOWN-FINDING), replay files and evidence files.

Exit codes of a check:  0 = property held on everything explored (known findings are
printed, not raised);  1 = at least one violation that known_findings.json does not list;
2 = machinery failure (build error, engine crash, nondeterministic replay) - never a verdict.
"""
import contextlib
import fcntl
import hashlib
import json
import multiprocessing
import os
import select
import shutil
import subprocess
import sys
import tempfile
import time
import traceback

VERIF = os.path.dirname(os.path.dirname(os.path.abspath(__file__)))
REPO = os.environ.get("VERIF_REPO", "/repo")
TARGET = os.path.join(VERIF, "target")
VDRIVE_BIN = os.path.join(TARGET, "vdrive", "debug", "vdrive")
QMLUIC_BIN = os.path.join(TARGET, "repo", "debug", "qmluic")
SHIM_SO = os.path.join(TARGET, "cshim", "getrandom_seed.so")
VTYPES = os.path.join(VERIF, "fixtures", "vtypes.json")
METATYPES = os.path.join(REPO, "contrib", "metatypes")
NPROC = int(os.environ.get("VERIF_JOBS", str(os.cpu_count() or 4)))
MODES = ("generate", "reject", "omit")


class MachineryError(Exception):
    pass


def log(*a):
    print(*a, file=sys.stderr, flush=True)


# --------------------------------------------------------------------------- builds

def _cargo_env():
    env = dict(os.environ)
    env["CARGO_NET_OFFLINE"] = "true"
    env.pop("RUSTFLAGS", None)
    return env


@contextlib.contextmanager
def _build_lock():
    os.makedirs(TARGET, exist_ok=True)
    with open(os.path.join(TARGET, ".build.lock"), "w") as f:
        fcntl.flock(f, fcntl.LOCK_EX)
        try:
            yield
        finally:
            fcntl.flock(f, fcntl.LOCK_UN)


def _run_build(cmd, cwd, what):
    t0 = time.time()
    p = subprocess.run(cmd, cwd=cwd, env=_cargo_env(), stdout=subprocess.PIPE,
                       stderr=subprocess.STDOUT, text=True)
    if p.returncode != 0:
        log(p.stdout[-6000:])
        raise MachineryError(f"build of {what} failed (exit {p.returncode})")
    log(f"[build] {what}: ok in {time.time() - t0:.1f}s")


def ensure_vdrive():
    """(Re)builds the in-process driver against /repo's current working tree."""
    with _build_lock():
        _run_build(["cargo", "build", "--offline", "--quiet",
                    "--target-dir", os.path.join(TARGET, "vdrive")],
                   os.path.join(VERIF, "engine", "vdrive"), "vdrive (links /repo/lib and /repo)")
    return VDRIVE_BIN


def ensure_cli():
    """(Re)builds /repo's qmluic binary into /verif/target/repo."""
    with _build_lock():
        _run_build(["cargo", "build", "--offline", "--quiet", "--bin", "qmluic",
                    "--manifest-path", os.path.join(REPO, "Cargo.toml"),
                    "--target-dir", os.path.join(TARGET, "repo")], REPO, "qmluic CLI")
    return QMLUIC_BIN


def ensure_shim():
    src = os.path.join(VERIF, "engine", "cshim", "getrandom_seed.c")
    with _build_lock():
        os.makedirs(os.path.dirname(SHIM_SO), exist_ok=True)
        if (not os.path.exists(SHIM_SO)) or os.path.getmtime(SHIM_SO) < os.path.getmtime(src):
            _run_build(["gcc", "-O2", "-shared", "-fPIC", "-o", SHIM_SO, src, "-ldl"], VERIF,
                       "getrandom shim")
    return SHIM_SO


# --------------------------------------------------------------------------- vdrive client

_aslr_ok = None


def can_disable_aslr():
    """Pointer-keyed maps (HashMap<Class, _>) hash addresses; replay determinism therefore needs
    address-space randomisation switched off for the child (setarch -R)."""
    global _aslr_ok
    if _aslr_ok is None:
        try:
            _aslr_ok = subprocess.run(["setarch", "-R", "true"], stdout=subprocess.DEVNULL,
                                      stderr=subprocess.DEVNULL).returncode == 0
        except OSError:
            _aslr_ok = False
    return _aslr_ok


class VDrive:
    """One `vdrive serve` subprocess, strictly request/response, so that a crash or a hang is
    attributed to exactly one job."""

    def __init__(self, extra_types=(VTYPES,), stack_mb=None, job_timeout=60.0, env=None,
                 no_aslr=False):
        self.extra_env = env or {}
        self.no_aslr = no_aslr and can_disable_aslr()
        self.extra_types = [t for t in extra_types if t and os.path.exists(t)]
        self.stack_mb = stack_mb
        self.job_timeout = job_timeout
        self.p = None
        self.restarts = 0

    def _start(self):
        cmd = [VDRIVE_BIN, "serve", "--metatypes", METATYPES]
        if self.no_aslr:
            cmd = ["setarch", "-R"] + cmd
        for t in self.extra_types:
            cmd += ["--types", t]
        env = dict(os.environ)
        if self.stack_mb:
            env["VDRIVE_STACK_MB"] = str(self.stack_mb)
        env.update(self.extra_env)
        self.p = subprocess.Popen(cmd, stdin=subprocess.PIPE, stdout=subprocess.PIPE,
                                  stderr=subprocess.DEVNULL, env=env, bufsize=0)
        self._buf = b""

    def close(self):
        if self.p is not None:
            with contextlib.suppress(Exception):
                self.p.stdin.close()
            with contextlib.suppress(Exception):
                self.p.wait(timeout=5)
            with contextlib.suppress(Exception):
                self.p.kill()
            self.p = None

    def _readline(self, deadline):
        fd = self.p.stdout.fileno()
        while b"\n" not in self._buf:
            left = deadline - time.time()
            if left <= 0:
                return None
            r, _, _ = select.select([fd], [], [], min(left, 1.0))
            if not r:
                if self.p.poll() is not None:
                    # drain whatever is left
                    chunk = os.read(fd, 1 << 20)
                    if not chunk:
                        return b""
                    self._buf += chunk
                continue
            chunk = os.read(fd, 1 << 20)
            if not chunk:
                return b""
            self._buf += chunk
        line, self._buf = self._buf.split(b"\n", 1)
        return line

    def job(self, job):
        """Returns the result dict; on engine death {'crashed': True, 'returncode': rc};
        on timeout {'timeout': True}."""
        if self.p is None or self.p.poll() is not None:
            self._start()
        data = (json.dumps(job) + "\n").encode()
        try:
            self.p.stdin.write(data)
            self.p.stdin.flush()
        except (BrokenPipeError, OSError):
            rc = self.p.wait()
            self.p = None
            self.restarts += 1
            return {"id": job.get("id"), "crashed": True, "returncode": rc}
        line = self._readline(time.time() + self.job_timeout)
        if line is None:
            self.p.kill()
            self.p.wait()
            self.p = None
            self.restarts += 1
            return {"id": job.get("id"), "timeout": True}
        if line == b"":
            rc = self.p.wait()
            self.p = None
            self.restarts += 1
            return {"id": job.get("id"), "crashed": True, "returncode": rc}
        return json.loads(line)

    def translate(self, source, modes=MODES, **kw):
        j = {"id": 0, "source": source, "modes": list(modes)}
        j.update(kw)
        return self.job(j)


_worker_vd = None


def worker_vdrive(**kw):
    """Per-process lazily created VDrive (used inside sharded workers)."""
    global _worker_vd
    if _worker_vd is None:
        _worker_vd = VDrive(**kw)
    return _worker_vd


# --------------------------------------------------------------------------- sharding

def _shard_entry(args):
    fn, shard, nshards, payload = args
    try:
        return ("ok", fn(shard, nshards, payload))
    except Exception as e:  # noqa
        if type(e).__name__ == "UiParseError":
            # a .ui of an accepted document that is not well-formed XML, met where the check did not expect it:
            # no value can be read from it, which no property survives; the shard's other results are lost
            t = Tally()
            t.inc("shards_ended_by_a_malformed_ui")
            t.violation("emitted-ui-not-well-formed", {"error": str(e), "shard": [shard, nshards], "where": traceback.format_exc()[-1500:]})
            return ("ok", t)
        return ("err", traceback.format_exc())
    finally:
        global _worker_vd
        if _worker_vd is not None:
            _worker_vd.close()
            _worker_vd = None


def run_sharded(fn, payload=None, nshards=None):
    """Runs fn(shard, nshards, payload) in `nshards` forked processes; returns the list of
    results in shard order. fn must be a module-level function."""
    nshards = nshards or NPROC
    if nshards == 1:
        r = _shard_entry((fn, 0, 1, payload))
        if r[0] == "err":
            raise MachineryError("worker failed:\n" + r[1])
        return [r[1]]
    ctx = multiprocessing.get_context("fork")
    with ctx.Pool(nshards) as pool:
        rs = pool.map(_shard_entry, [(fn, i, nshards, payload) for i in range(nshards)], chunksize=1)
    out = []
    for r in rs:
        if r[0] == "err":
            raise MachineryError("worker failed:\n" + r[1])
        out.append(r[1])
    return out


class Tally:
    """Mergeable counters + bounded violation list produced by one shard."""

    def __init__(self):
        self.counts = {}
        self.violations = []       # (signature, case dict)
        self.viol_counts = {}
        self.samples = []
        self.distinct = set()
        self.lost = []             # cases lost to crashes/timeouts/panics owned by C07

    def inc(self, key, n=1):
        self.counts[key] = self.counts.get(key, 0) + n

    def violation(self, signature, case):
        self.viol_counts[signature] = self.viol_counts.get(signature, 0) + 1
        if sum(1 for s, _ in self.violations if s == signature) < 3:
            self.violations.append((signature, case))

    def sample(self, s, limit=4):
        if len(self.samples) < limit:
            self.samples.append(s)

    def merge(self, other):
        for k, v in other.counts.items():
            if k.startswith("max_"):
                self.counts[k] = max(self.counts.get(k, 0), v)
            else:
                self.counts[k] = self.counts.get(k, 0) + v
        for k, v in other.viol_counts.items():
            self.viol_counts[k] = self.viol_counts.get(k, 0) + v
        for s, c in other.violations:
            if sum(1 for s2, _ in self.violations if s2 == s) < 3:
                self.violations.append((s, c))
        for s in other.samples:
            if len(self.samples) < 8:
                self.samples.append(s)
        self.distinct |= other.distinct
        self.lost += other.lost[:20]
        return self


def merge_tallies(ts):
    out = Tally()
    for t in ts:
        out.merge(t)
    return out


# --------------------------------------------------------------------------- verdicts

def load_known_findings():
    p = os.path.join(VERIF, "known_findings.json")
    if not os.path.exists(p):
        return []
    with open(p) as f:
        return json.load(f).get("findings", [])


def write_replay(pid, signature, case):
    d = os.path.join(VERIF, "replays", pid)
    os.makedirs(d, exist_ok=True)
    body = {"property": pid, "signature": signature, "case": case}
    blob = json.dumps(body, indent=1, sort_keys=True, ensure_ascii=False)
    h = hashlib.sha256(blob.encode()).hexdigest()[:16]
    path = os.path.join(d, h + ".json")
    with open(path, "w") as f:
        f.write(blob + "\n")
    return path


def finish(pid, tier, level, tally, coverage, assumptions, t0, extra_evidence=None):
    """Prints verdict lines, writes evidence/<pid>.json, returns the exit code."""
    known = {}
    for k in load_known_findings():
        if k.get("property") == pid and k.get("status", "known") == "known":
            known[k["signature"]] = k
    exit_code = 0
    reported_known = []
    new = []
    seen = set()
    for sig, case in tally.violations:
        if sig in seen:
            continue
        seen.add(sig)
        if sig in known:
            print(f"KNOWN-FINDING: property={pid} {sig} (x{tally.viol_counts.get(sig, 1)})")
            reported_known.append(sig)
        else:
            path = write_replay(pid, sig, case)
            print(f"VIOLATION property={pid} replay={path}")
            print(f"  signature: {sig} (x{tally.viol_counts.get(sig, 1)})")
            new.append(sig)
            exit_code = 1
    # a listed finding that is no longer observed is reported (informational)
    for sig in known:
        if sig not in seen:
            log(f"[note] known finding not observed in this run: {pid} {sig}")
    cov = dict(coverage)
    cov.setdefault("counts", dict(sorted(tally.counts.items())))
    if "samples" not in cov:
        cov["samples"] = tally.samples[:6] or ["(none)"]
    if tally.lost:
        cov["lost_cases"] = len(tally.lost)
        cov["lost_examples"] = tally.lost[:3]
    ev = {
        "property_id": pid,
        "tier": tier,
        "seed": int(os.environ.get("VERIF_SEED", "0") or 0),
        "level": level,
        "coverage": cov,
        "assumptions": assumptions,
        "wall_s": round(time.time() - t0, 2),
        "violations": len(new),
        "violation_signatures": {s: tally.viol_counts.get(s, 1) for s in new},
        "known_findings_observed": {s: tally.viol_counts.get(s, 1) for s in reported_known},
    }
    if extra_evidence:
        ev.update(extra_evidence)
    # mutation runs (tools/mutest.py, tools/seedrun.py) divert their evidence so that the committed
    # files always describe the unchanged tree
    evdir = os.environ.get("VERIF_EVIDENCE_DIR") or os.path.join(VERIF, "evidence")
    os.makedirs(evdir, exist_ok=True)
    tmp = os.path.join(evdir, f".{pid}.json.tmp")
    with open(tmp, "w") as f:
        json.dump(ev, f, indent=1, ensure_ascii=False)
        f.write("\n")
    os.replace(tmp, os.path.join(evdir, f"{pid}.json"))
    state = "held" if exit_code == 0 else "VIOLATED"
    log(f"[{pid}] {tier}: {state}; evaluations={cov.get('evaluations')} "
        f"distinct_nontrivial={cov.get('distinct_nontrivial')} wall={ev['wall_s']}s")
    return exit_code


# --------------------------------------------------------------------------- scratch dirs

@contextlib.contextmanager
def scratch_dir(tag):
    base = os.environ.get("VERIF_SCRATCH", tempfile.gettempdir())
    d = tempfile.mkdtemp(prefix=f"verif-{tag}-", dir=base)
    try:
        yield d
    finally:
        # directories may have been made read-only by a scenario
        for root, dirs, _files in os.walk(d):
            for x in dirs:
                with contextlib.suppress(OSError):
                    os.chmod(os.path.join(root, x), 0o755)
        shutil.rmtree(d, ignore_errors=True)


def sha(s):
    if isinstance(s, str):
        s = s.encode()
    return hashlib.sha256(s).hexdigest()


def accepted(res_mode, has_syntax_error=False):
    """Acceptance as src/main.rs defines it."""
    return (not has_syntax_error) and res_mode.get("status") == "built" and not res_mode.get("has_error")
