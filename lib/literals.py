"""ECMAScript numeric / string literal decoders written from the language specification
(independent of lib/src/qmlast/astutil.rs).  Used by C03 (and C16 for string literals)."""
import re

_SEP = r"(?:_?{d})*"
_BIN = re.compile(r"0[bB]([01](?:_?[01])*)$")
_OCT = re.compile(r"0[oO]([0-7](?:_?[0-7])*)$")
_HEX = re.compile(r"0[xX]([0-9a-fA-F](?:_?[0-9a-fA-F])*)$")
_LEGACY_OCT = re.compile(r"0[0-7]+$")
_NONOCT_DEC = re.compile(r"0[0-9]*[89][0-9]*$")
_DIGITS = r"[0-9](?:_?[0-9])*"
_DECINT = r"(?:0|[1-9](?:_?[0-9])*)"
_EXP = r"(?:[eE][+-]?" + _DIGITS + ")"
_DEC = re.compile(r"(?:(?P<i>" + _DECINT + r")(?P<dot>\.(?P<f>" + _DIGITS + r")?)?(?P<e>" + _EXP + r")?|\.(?P<f2>" + _DIGITS + r")(?P<e2>" + _EXP + r")?)$")


def js_number(s):
    """-> ('int', int) | ('float', float) | None if `s` is not a valid ECMAScript numeric literal
    (sloppy mode, numeric separators allowed, no BigInt)."""
    for rx, radix in ((_BIN, 2), (_OCT, 8), (_HEX, 16)):
        m = rx.match(s)
        if m:
            return ("int", int(m.group(1).replace("_", ""), radix))
    if _LEGACY_OCT.match(s):
        return ("int", int(s, 8)) if len(s) > 1 else ("int", 0)
    if _NONOCT_DEC.match(s):
        return ("int", int(s, 10))
    m = _DEC.match(s)
    if not m:
        return None
    if m.group("i") is not None and m.group("dot") is None and m.group("e") is None:
        return ("int", int(m.group("i").replace("_", "")))
    return ("float", float(s.replace("_", "")))


_SINGLE = {"n": "\n", "t": "\t", "r": "\r", "b": "\b", "f": "\f", "v": "\v", "0": "\0",
           "'": "'", '"': '"', "\\": "\\"}


def js_string_body(body):
    """Decodes the inside of a quoted ECMAScript string literal (sloppy mode).
    -> str | None if the body is not valid (bad \\x / \\u escapes, lone surrogates, raw newline)."""
    out = []
    i = 0
    n = len(body)
    units = []   # UTF-16 code units, to join surrogate pairs written as two \\u escapes

    def push_cp(cp):
        if cp > 0xFFFF:
            cp -= 0x10000
            units.append(0xD800 + (cp >> 10))
            units.append(0xDC00 + (cp & 0x3FF))
        else:
            units.append(cp)

    while i < n:
        ch = body[i]
        if ch in "\n\r":
            return None
        if ch != "\\":
            push_cp(ord(ch))
            i += 1
            continue
        i += 1
        if i >= n:
            return None
        c = body[i]
        if c == "x":
            h = body[i + 1:i + 3]
            if len(h) != 2 or not re.fullmatch(r"[0-9a-fA-F]{2}", h):
                return None
            units.append(int(h, 16))
            i += 3
        elif c == "u":
            if body[i + 1:i + 2] == "{":
                j = body.find("}", i)
                if j < 0:
                    return None
                h = body[i + 2:j]
                if not re.fullmatch(r"[0-9a-fA-F]+", h) or int(h, 16) > 0x10FFFF:
                    return None
                push_cp(int(h, 16))
                i = j + 1
            else:
                h = body[i + 1:i + 5]
                if len(h) != 4 or not re.fullmatch(r"[0-9a-fA-F]{4}", h):
                    return None
                units.append(int(h, 16))
                i += 5
        elif c in "01234567":
            # legacy octal escape (\\0 alone is NUL): up to 3 digits, value <= 0o377
            m = re.match(r"[0-3][0-7]{0,2}|[4-7][0-7]?", body[i:])
            units.append(int(m.group(0), 8))
            i += len(m.group(0))
        elif c in "\n  ":
            i += 1            # line continuation
        elif c == "\r":
            i += 2 if body[i + 1:i + 2] == "\n" else 1
        elif c in _SINGLE:
            units.append(ord(_SINGLE[c]))
            i += 1
        else:
            push_cp(ord(c))   # NonEscapeCharacter: denotes itself (incl. \\8 \\9)
            i += 1
    # units -> str; lone surrogates are not representable
    res = []
    k = 0
    while k < len(units):
        u = units[k]
        if 0xD800 <= u <= 0xDBFF and k + 1 < len(units) and 0xDC00 <= units[k + 1] <= 0xDFFF:
            res.append(chr(0x10000 + ((u - 0xD800) << 10) + (units[k + 1] - 0xDC00)))
            k += 2
        elif 0xD800 <= u <= 0xDFFF:
            return None
        else:
            res.append(chr(u))
            k += 1
    return "".join(res)


def xml_can_carry(s):
    """True iff every character is allowed in an XML 1.0 document."""
    for ch in s:
        o = ord(ch)
        if not (o in (9, 10, 13) or 0x20 <= o <= 0xD7FF or 0xE000 <= o <= 0xFFFD or o >= 0x10000):
            return False
    return True
