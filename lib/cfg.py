"""Recovers the control-flow graph of the goto-structured function bodies in an emitted
uisupport_*.h and checks the C06 obligations on it.  The line grammar is deliberately tolerant:
it does not depend on how labels, locals or functions are named.

  <ident>:                      label
  goto <ident>;                 jump
  if (<expr>) / goto X; / else / goto Y;      conditional jump
  return [<expr>];              return
  Q_UNREACHABLE();              unreachable marker
  <ident> = <expr>;             assignment to a local
  anything else ending in ';' or a brace block      statement (reads locals)
"""
import re

FUNC_RE = re.compile(r"^    (?P<ret>[\w:<>\*& ,]+?)\s+(?P<name>(?:eval|on)\w+)\((?P<params>[^)]*)\)\s*$")
LABEL_RE = re.compile(r"^\s*([A-Za-z_]\w*):\s*$")
GOTO_RE = re.compile(r"^\s*goto\s+([A-Za-z_]\w*);\s*$")
IF_RE = re.compile(r"^\s*if \((.*)\)\s*$")
ELSE_RE = re.compile(r"^\s*else\s*$")
RETURN_RE = re.compile(r"^\s*return\b\s*(.*?);\s*$")
UNREACH_RE = re.compile(r"^\s*Q_UNREACHABLE\(\);\s*$")
ASSIGN_RE = re.compile(r"^\s*([A-Za-z_]\w*) = (.*);\s*$")
DECL_RE = re.compile(r"^\s*([\w:<>\*& ,]+?)\s+\*?([A-Za-z_]\w*);\s*$")
IDENT_RE = re.compile(r"(?<![\w>.:])([A-Za-z_]\w*)\b(?!\s*\()")


class CfgParseError(Exception):
    pass


def extract_functions(header):
    """-> [dict(name, ret, params=[(type, name)], lines=[...])] for eval*/on* member functions."""
    lines = header.splitlines()
    out = []
    i = 0
    while i < len(lines):
        m = FUNC_RE.match(lines[i])
        if m and i + 1 < len(lines) and lines[i + 1].strip() == "{":
            j = i + 2
            body = []
            while j < len(lines) and lines[j] != "    }":
                body.append(lines[j])
                j += 1
            if j >= len(lines):
                raise CfgParseError(f"unterminated function {m.group('name')}")
            params = []
            ps = m.group("params").strip()
            if ps:
                for p in ps.split(","):
                    p = p.strip()
                    mm = re.match(r"(.*?)\s*\*?\s*([A-Za-z_]\w*)$", p)
                    params.append((mm.group(1), mm.group(2)))
            # the wrapper that assembles a grouped value from its members' evaluation functions
            # (`T evalX(T a) { a.setM(this->evalXM()); ...; return a; }`) has no blocks of its own
            is_gadget_wrapper = len(params) == 1 and params[0][1] == "a" and params[0][0] == m.group("ret").strip() and \
                not any(re.match(r"\s*b\d+:", l) for l in body)
            if not is_gadget_wrapper:
                out.append({"name": m.group("name"), "ret": m.group("ret").strip(), "params": params,
                            "lines": body})
            i = j + 1
        else:
            i += 1
    return out


class Block:
    def __init__(self, label):
        self.label = label
        self.stmts = []      # ('assign', local, used_idents) | ('use', used_idents)
        self.term = None     # ('goto', L) | ('cond', used, L1, L2) | ('return', used, has_value)
                             # | ('unreachable',) | None = falls off


def _idents(expr, locals_):
    return {m.group(1) for m in IDENT_RE.finditer(expr) if m.group(1) in locals_}


def parse_body(fn):
    """-> (locals set, params set, [Block...]) ; raises CfgParseError if a line is not understood."""
    lines = fn["lines"]
    locals_ = set()
    types = {n: t.strip() for t, n in fn["params"]}
    params = {n for _t, n in fn["params"]}
    blocks = []
    cur = None
    i = 0
    # declarations (and the two helper lines for observers) come first
    while i < len(lines):
        l = lines[i]
        if LABEL_RE.match(l):
            break
        s = l.strip()
        if s.startswith("auto &observed") or s.startswith("const auto update"):
            i += 1
            continue
        m = DECL_RE.match(l)
        if not m:
            raise CfgParseError(f"{fn['name']}: unexpected line before first label: {l!r}")
        locals_.add(m.group(2))
        types[m.group(2)] = m.group(1).strip() + ("*" if "*" in l.split(m.group(2))[0][len(m.group(1)):] or m.group(1).strip().endswith("*") else "")
        i += 1
    fn["types"] = types
    all_locals = locals_ | params
    while i < len(lines):
        l = lines[i]
        m = LABEL_RE.match(l)
        if m:
            cur = Block(m.group(1))
            blocks.append(cur)
            i += 1
            continue
        if cur is None:
            raise CfgParseError(f"{fn['name']}: statement before first label: {l!r}")
        if cur.term is not None:
            raise CfgParseError(f"{fn['name']}: statement after terminator in {cur.label}: {l!r}")
        m = GOTO_RE.match(l)
        if m:
            cur.term = ("goto", m.group(1))
            i += 1
            continue
        m = IF_RE.match(l)
        if m and i + 3 < len(lines) and GOTO_RE.match(lines[i + 1]) and ELSE_RE.match(lines[i + 2]) \
                and GOTO_RE.match(lines[i + 3]):
            cur.term = ("cond", _idents(m.group(1), all_locals), GOTO_RE.match(lines[i + 1]).group(1),
                        GOTO_RE.match(lines[i + 3]).group(1))
            i += 4
            continue
        if l.strip().startswith("if (") and l.rstrip().endswith("{"):
            # brace block (property observer): treat as one statement reading its identifiers
            depth = 0
            text = []
            while i < len(lines):
                depth += lines[i].count("{") - lines[i].count("}")
                text.append(lines[i])
                i += 1
                if depth == 0:
                    break
            cur.stmts.append(("use", _idents(" ".join(text), all_locals)))
            continue
        m = UNREACH_RE.match(l)
        if m:
            cur.term = ("unreachable",)
            i += 1
            continue
        m = RETURN_RE.match(l)
        if m:
            cur.term = ("return", _idents(m.group(1), all_locals), bool(m.group(1).strip()))
            i += 1
            continue
        m = ASSIGN_RE.match(l)
        if m and m.group(1) in all_locals:
            cur.stmts.append(("assign", m.group(1), _idents(m.group(2), all_locals)))
            i += 1
            continue
        if l.rstrip().endswith(";"):
            cur.stmts.append(("use", _idents(l, all_locals)))
            i += 1
            continue
        raise CfgParseError(f"{fn['name']}: cannot parse line {l!r}")
    return locals_, params, blocks


def analyze(fn):
    """-> (problems [(clause, message)], stats dict)"""
    locals_, params, blocks = parse_body(fn)
    problems = []
    if not blocks:
        return [("no-blocks", fn["name"])], {}
    by_label = {}
    for b in blocks:
        if b.label in by_label:
            problems.append(("duplicate-label", f"{fn['name']}: label {b.label} defined twice"))
        by_label[b.label] = b

    def succ(b):
        t = b.term
        if t is None:
            return []
        if t[0] == "goto":
            return [t[1]]
        if t[0] == "cond":
            return [t[2], t[3]]
        return []

    for b in blocks:
        for s in succ(b):
            if s not in by_label:
                problems.append(("goto-missing-label", f"{fn['name']}: {b.label} jumps to undefined {s}"))
    # reachability from the first label
    reach = []
    seen = set()
    work = [blocks[0].label]
    while work:
        l = work.pop()
        if l in seen or l not in by_label:
            continue
        seen.add(l)
        reach.append(l)
        work += succ(by_label[l])
    value_fn = fn["ret"] != "void"
    for l in reach:
        b = by_label[l]
        if b.term is None:
            problems.append(("falls-off-the-end", f"{fn['name']}: reachable {l} has no terminator"))
        elif b.term[0] == "unreachable":
            problems.append(("unreachable-marker-reachable", f"{fn['name']}: reachable {l} ends in Q_UNREACHABLE()"))
        elif b.term[0] == "return":
            if value_fn and not b.term[2]:
                problems.append(("return-without-value", f"{fn['name']}: reachable {l} returns no value from '{fn['ret']}' function"))
            if not value_fn and b.term[2]:
                problems.append(("value-returned-from-void", f"{fn['name']}: {l}"))
    # conditions test bool locals
    types = fn.get("types", {})
    for l in reach:
        t = by_label[l].term
        if t and t[0] == "cond":
            for u in t[1]:
                if types.get(u) not in (None, "bool"):
                    problems.append(("condition-on-non-bool", f"{fn['name']}: {l} branches on {u} of type {types.get(u)}"))
    # forward must-dataflow: definitely-assigned locals
    full = set(locals_) | set(params)
    din = {l: set(full) for l in reach}
    din[blocks[0].label] = set(params)
    preds = {l: [] for l in reach}
    for l in reach:
        for s in succ(by_label[l]):
            if s in preds:
                preds[s].append(l)

    def transfer(l, inset):
        cur = set(inset)
        for st in by_label[l].stmts:
            if st[0] == "assign":
                cur.add(st[1])
        return cur

    changed = True
    while changed:
        changed = False
        for l in reach:
            if l == blocks[0].label:
                newin = set(params)
            else:
                ps = preds[l]
                newin = set(full)
                for p in ps:
                    newin &= transfer(p, din[p])
            if newin != din[l]:
                din[l] = newin
                changed = True
    for l in reach:
        cur = set(din[l])
        b = by_label[l]
        for st in b.stmts:
            used = st[2] if st[0] == "assign" else st[1]
            for u in used:
                if u not in cur:
                    problems.append(("use-before-assignment", f"{fn['name']}: {l} reads {u} which is not assigned on every path"))
            if st[0] == "assign":
                cur.add(st[1])
        t = b.term
        used = set()
        if t and t[0] == "cond":
            used = t[1]
        elif t and t[0] == "return":
            used = t[1]
        for u in used:
            if u not in cur:
                problems.append(("use-before-assignment", f"{fn['name']}: terminator of {l} reads {u} which is not assigned on every path"))
    stats = {"blocks": len(blocks), "reachable": len(reach),
             "edges": sum(len(succ(by_label[l])) for l in reach),
             "unreachable_blocks": len(blocks) - len(reach)}
    return problems, stats
