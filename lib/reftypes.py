"""Reference typing discipline (C05), derived from docs/language.md and the property text
(DESIGN.md Appendix C).  Three-valued: 'ok' (MUST_ACCEPT), 'reject' (MUST_REJECT),
'unspec' (documentation silent: counted, never judged).

Kinds: I int, U uint, D double, B bool, S QString, E enum (VObj::Mode), F flags (VObj::Flags),
P VObj*, PS VSub* (derived), PW QWidget* (base), L QStringList, V QVariant, void,
n integer literal (adapts to I/U, default I), s string literal (adapts to S), null, [] empty list.
"""

POINTERS = ("P", "PS", "PW")
DERIVES = {("PS", "P"), ("PS", "PW"), ("P", "PW")}     # (derived, base)

OK, REJ, UNS = "ok", "reject", "unspec"


def unify(a, b):
    """Common operand type or None (different kinds) or 'related' for related pointer classes."""
    if a == b:
        return a
    pair = {a, b}
    for lit, conc in (("n", "I"), ("n", "U"), ("s", "S"), ("[]", "L")):
        if pair == {lit, conc}:
            return conc
    if "null" in pair:
        other = (pair - {"null"}).pop()
        if other in POINTERS:
            return other
        return None
    if a in POINTERS and b in POINTERS:
        return "related"
    return None


def concrete(k):
    return {"n": "I", "s": "S"}.get(k, k)


def assignable(dst, src):
    """dst: declared kind; src: expression kind. -> OK / REJ / UNS"""
    if src == "void":
        return REJ
    if dst == src:
        return OK
    if (src, dst) in (("n", "I"), ("n", "U"), ("s", "S"), ("[]", "L")):
        return OK
    if src == "null" and dst in POINTERS:
        return OK
    if (src, dst) in DERIVES:
        return OK
    if {src, dst} == {"E", "F"}:
        return REJ
    return REJ


def t_unary(op, k):
    if k == "void":
        return (REJ, None)
    if op in ("+", "-"):
        if k in ("I", "D", "n"):
            return (OK, k)
        if k == "U":
            return (UNS, "U")
        return (REJ, None)
    if op == "~":
        if k in ("I", "U", "n"):
            return (OK, k)
        if k in ("E", "E2", "F"):
            return (UNS, k)
        return (REJ, None)
    if op == "!":
        return (OK, "B") if k == "B" else (REJ, None)
    raise KeyError(op)


def t_binary(op, a, b):
    if a == "void" or b == "void":
        return (REJ, None)
    u = unify(a, b)
    if op in ("+", "-", "*", "/", "%"):
        if u in ("I", "U", "D", "n"):
            if op == "%" and u == "D":
                return (UNS, "D")
            return (OK, u)
        if u in ("S", "s"):
            return (OK, u) if op == "+" else (REJ, None)
        return (REJ, None)
    if op in ("&", "^", "|"):
        if u in ("I", "U", "n", "F"):
            return (OK, u)
        if u in ("B", "E", "E2"):
            return (UNS, u)
        return (REJ, None)
    if op in ("<<", ">>"):
        if a in ("D", "B", "S", "s", "E", "E2", "F", "L", "V", "null", "[]") + POINTERS or \
                b in ("D", "B", "S", "s", "E", "E2", "F", "L", "V", "null", "[]") + POINTERS:
            return (REJ, None)
        if a == "U" or b == "U":
            return (UNS, concrete(a))
        if a == "n" and b != "n":
            # accepted, but whether the result still adapts like a literal or has become an int is
            # not settled by the documentation: kind "nI" makes every judgement that depends on it
            # unspecified (see _merge)
            return (OK, "nI")
        return (OK, a)      # (I|n) by (I|n)
    if op in ("==", "!="):
        if u == "related":
            return (UNS, "B")
        if u is None:
            return (REJ, None)
        if u in ("I", "U", "D", "B", "S", "s", "n", "E", "E2", "F") + POINTERS:
            return (OK, "B")
        if u == "V":
            return (REJ, None)
        return (UNS, "B")       # lists, null == null
    if op in ("<", "<=", ">", ">="):
        if u == "related":
            return (UNS, "B")
        if u is None:
            return (REJ, None)
        if u in ("I", "U", "D", "S", "s", "n"):
            return (OK, "B")
        if u in ("L", "V", "[]"):
            return (REJ, None)
        return (UNS, "B")       # B, E, F, pointers, null
    if op in ("&&", "||"):
        return (OK, "B") if a == "B" and b == "B" else (REJ, None)
    raise KeyError(op)


def t_ternary(c, a, b):
    if c != "B" or a == "void" and b != "void" or b == "void" and a != "void":
        if c != "B":
            return (REJ, None)
    if a == "void" and b == "void":
        return (UNS, "void")
    u = unify(a, b)
    if u == "related":
        return (UNS, None)
    if u is None:
        return (REJ, None)
    if u in ("null", "[]"):
        return (UNS, u)     # no concrete type can be deduced
    return (OK, concrete(u))


CAST_TARGETS = {"int": "I", "uint": "U", "double": "D", "bool": "B", "QString": "S", "void": "void",
                "VObj": "P", "VSub": "PS", "QWidget": "PW"}


def t_cast(k, target):
    t = CAST_TARGETS[target]
    if t == "void":
        return (OK, "void")
    if k == "void":
        return (REJ, None)
    if concrete(k) == t:
        return (UNS, t)                     # identity casts
    if k == "V":
        return (OK, t)                      # extract stored value from QVariant
    num = ("I", "U", "D", "n")
    if k in num and t in ("I", "U", "D"):
        return (OK, t)
    if k in ("E", "E2", "F") and t in ("I", "U"):
        return (OK, t)
    if k == "B" and t in ("I", "U"):
        return (OK, t)
    if (k, t) in DERIVES:
        return (UNS, t)                     # explicit upcast: used by the tests, not in the docs list
    if k == "null" and t in POINTERS:
        return (UNS, t)
    return (REJ, None)


def _alts(k):
    return ("n", "I") if k == "nI" else (k,)


def _merge(results):
    """Combines the judgements of the alternatives of an ambiguous kind."""
    vs = {v for v, _ in results}
    if len(vs) > 1:
        return (UNS, None)
    v = vs.pop()
    ks = {k for _, k in results}
    if len(ks) == 1:
        return (v, ks.pop())
    if ks <= {"n", "I", "nI"}:
        return (v, "nI")
    return (UNS, None)


def typeof(e):
    """e: ('leaf', kind, text) | ('un', op, e) | ('bin', op, l, r) | ('tern', c, a, b) |
    ('as', e, target) -> (verdict, kind)"""
    tag = e[0]
    if tag == "leaf":
        return (OK, e[1])
    if tag == "un":
        v, k = typeof(e[2])
        if v != OK:
            return (v, None)
        return _merge([t_unary(e[1], x) for x in _alts(k)])
    if tag == "bin":
        vl, kl = typeof(e[2])
        vr, kr = typeof(e[3])
        if REJ in (vl, vr):
            return (REJ, None)
        if UNS in (vl, vr):
            return (UNS, None)
        return _merge([t_binary(e[1], x, y) for x in _alts(kl) for y in _alts(kr)])
    if tag == "tern":
        rs = [typeof(x) for x in e[1:4]]
        if any(v == REJ for v, _ in rs):
            return (REJ, None)
        if any(v == UNS for v, _ in rs):
            return (UNS, None)
        return _merge([t_ternary(c, x, y) for c in _alts(rs[0][1]) for x in _alts(rs[1][1]) for y in _alts(rs[2][1])])
    if tag == "as":
        v, k = typeof(e[1])
        if v != OK:
            return (v, None)
        return _merge([t_cast(x, e[2]) for x in _alts(k)])
    raise KeyError(tag)


def show(e):
    tag = e[0]
    if tag == "leaf":
        return e[2]
    if tag == "un":
        inner = show(e[2])
        return f"{e[1]}({inner})" if e[2][0] != "leaf" or inner.startswith(("-", "+")) else f"{e[1]}{inner}"
    if tag == "bin":
        return f"({show(e[2])} {e[1]} {show(e[3])})"
    if tag == "tern":
        return f"({show(e[1])} ? {show(e[2])} : {show(e[3])})"
    if tag == "as":
        return f"({show(e[1])} as {e[2]})"
    raise KeyError(tag)


# leaves: kind -> [(spelling, is_dynamic)]
LEAVES = {
    "I": [("a.i", True)], "n": [("1", False)], "U": [("a.u", True)],
    "D": [("a.d", True), ("1.5", False)], "B": [("a.b", True), ("true", False)],
    "S": [("a.s", True)], "s": [('"s"', False)],
    "E": [("a.e", True), ("VObj.M1", False)], "E2": [("a.e2", True), ("VObj.N1", False)], "F": [("a.f", True), ("VObj.F0", False)],
    "P": [("a.p", True), ("a", False)], "PS": [("sub", False)], "PW": [("root", False)],
    "L": [("a.sl", True)], "V": [("a.v", True)], "void": [("a.act()", True)],
    "null": [("null", False)], "[]": [("[]", False)],
}

BINOPS = ["+", "-", "*", "/", "%", "&", "^", "|", "<<", ">>", "==", "!=", "<", "<=", ">", ">=", "&&", "||"]
UNOPS = ["+", "-", "~", "!"]


def all_leaves():
    for k, sp in LEAVES.items():
        for text, dyn in sp:
            yield ("leaf", k, text)
