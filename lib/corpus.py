"""Seed documents, a QML/JS tokenizer and the mutation / token-soup enumerators shared by
C07 (totality), C14 (mode relations) and C08 (determinism)."""
import glob
import itertools
import os
import re

import vcommon as vc

TOKEN_RE = re.compile(r"""
    (?P<ws>\s+)
  | (?P<comment>//[^\n]*|/\*.*?\*/)
  | (?P<string>"(?:\\.|[^"\\\n])*"|'(?:\\.|[^'\\\n])*')
  | (?P<number>0[xX][0-9a-fA-F_]+|0[bB][01_]+|0[oO][0-7_]+|\d[\d_]*\.?[\d_]*(?:[eE][+-]?\d+)?|\.\d+)
  | (?P<ident>[^\W\d]\w*)
  | (?P<punct>===|!==|>>>|\*\*|=>|==|!=|<=|>=|&&|\|\||<<|>>|\+\+|--|\+=|-=|\?\?|\?\.|[{}()\[\];:,.?<>+\-*/%&|^~!=@#`\\])
  | (?P<other>.)
""", re.X | re.S)


def tokenize(text):
    """-> list of (kind, text). Concatenating the texts gives the input back."""
    out = []
    for m in TOKEN_RE.finditer(text):
        out.append((m.lastgroup, m.group(0)))
    assert "".join(t for _, t in out) == text
    return out


def example_seeds():
    """The repository's own example documents (path, text)."""
    ps = sorted(glob.glob(os.path.join(vc.REPO, "examples", "*.qml")))
    ps += sorted(glob.glob(os.path.join(vc.REPO, "examples", "customwidget", "**", "*.qml"),
                           recursive=True))
    return [(os.path.relpath(p, vc.REPO), open(p, encoding="utf-8").read()) for p in ps]


GENERATED_SEEDS = [
    # each uses constructs the examples do not, incl. non-ASCII identifiers/strings/comments
    ("g/bindings", """import qmluic.QtWidgets
QDialog {
    id: root
    windowTitle: qsTr("Größe – 寸法") // commentaire é
    QVBoxLayout {
        QCheckBox { id: cb; checked: true; text: "☑ on" }
        QSpinBox { id: sp; value: cb.checked ? 1 : 2; maximum: 0x7f; minimum: -0b101 }
        QLabel { id: lb; text: sp.value > 1 && cb.checked ? qsTr("many") : "few"; buddy: sp
                 alignment: Qt.AlignLeft | Qt.AlignVCenter }
        QPushButton { text: "ok"; default_: true; onClicked: function(on: bool) { if (on) { root.accept() } else { root.reject(); return } } }
    }
}
"""),
    ("g/switch", """import qmluic.QtWidgets
QWidget {
    QComboBox { id: combo; model: ["a", "b", "ç"] }
    QLabel {
        text: {
            let s: QString = "";
            switch (combo.currentIndex) {
            case 0: s = "zero"; break;
            case 1:
            case 2: s = "some";
            default: s = s + "!";
            }
            return s;
        }
    }
}
"""),
    ("g/gadgets", """import qmluic.QtWidgets
QWidget {
    font.family: "Sérif"; font.pointSize: 11; font { bold: true }
    sizePolicy { horizontalPolicy: QSizePolicy.Expanding; verticalPolicy: QSizePolicy.Fixed; horizontalStretch: 1 }
    geometry { x: 0; y: 0; width: 10; height: 20 }
    palette.window: "#80ff0000"; palette.active.text: "red"
    windowIcon.name: "document-open"
    cursor: Qt.IBeamCursor
    QGridLayout {
        columns: 2
        contentsMargins { left: 1; top: 2; right: 3; bottom: 4 }
        QLabel { QLayout.row: 1; QLayout.columnStretch: 2; text: "a" }
        QLabel { QLayout.alignment: Qt.AlignRight; text: 'b' }
        QSpacerItem { orientation: Qt.Vertical; sizeHint { width: 1; height: 2 } }
    }
}
"""),
    ("g/menus", """import qmluic.QtWidgets
QMainWindow {
    QAction { id: actA; text: qsTr("&A"); shortcut: QKeySequence.Copy; onTriggered: console.log("a", 1, true) }
    QAction { id: actB; separator: true }
    QMenuBar { QMenu { id: m1; title: "M"; actions: [actA, actB, m2.menuAction()] ; QMenu { id: m2 } } }
    QTabWidget { QWidget { QTabWidget.title: qsTr("t1") } QWidget { QTabWidget.title: "t2"; QTabWidget.toolTip: "tip" } }
    QTableView { horizontalHeader.stretchLastSection: true; verticalHeader { visible: false } }
}
"""),
    ("g/exprs", """import qmluic.QtWidgets
QWidget {
    QSpinBox { id: a; value: 7 % 3 + (1 << 4) - ~2 }
    QDoubleSpinBox { id: d; value: 1.5e1 / 2.0 }
    QLabel { text: "a%1".arg(a.value) + (a.value as double > d.value ? "x" : "y"); enabled: !(a.value == 3) || a.text.isEmpty() }
    QSlider { value: Math.max(a.value, 3) >> 1; maximum: Math.min(100, a.maximum) }
    QLineEdit { id: le; text: qsTr("x") ; onTextChanged: { let n = le.text; a.value = n.isEmpty() ? 0 : 1 } }
}
"""),
]


def all_seeds(tier):
    ex = example_seeds()
    gen = list(GENERATED_SEEDS)
    if tier == "quick":
        # the smallest examples + all generated ones
        ex = sorted(ex, key=lambda s: len(s[1]))[:6]
    return ex + gen


REPLACERS = ["{", "}", "(", ")", "[", "]", ":", ";", ".", ",", "?", "=>"]


def single_edits(text):
    """Yields (edit description, mutated text) for every single token edit."""
    toks = tokenize(text)
    idx = [i for i, (k, _) in enumerate(toks) if k not in ("ws",)]
    texts = [t for _, t in toks]

    def join(ts):
        return "".join(ts)

    for n, i in enumerate(idx):
        yield (f"del@{n}", join(texts[:i] + texts[i + 1:]))
        yield (f"dup@{n}", join(texts[:i + 1] + [" "] + texts[i:]))
        if n + 1 < len(idx):
            j = idx[n + 1]
            sw = list(texts)
            sw[i], sw[j] = sw[j], sw[i]
            yield (f"swap@{n}", join(sw))
        for r in REPLACERS:
            if texts[i] != r:
                yield (f"rep@{n}:{r}", join(texts[:i] + [r] + texts[i + 1:]))
        yield (f"prefix@{n}", join(texts[:i]))
        yield (f"suffix@{n}", join(texts[i:]))


def pair_deletions(text):
    toks = tokenize(text)
    idx = [i for i, (k, _) in enumerate(toks) if k not in ("ws",)]
    texts = [t for _, t in toks]
    for a in range(len(idx)):
        for b in range(a + 1, len(idx)):
            ts = list(texts)
            ts[idx[a]] = ""
            ts[idx[b]] = ""
            yield (f"del2@{a},{b}", "".join(ts))


SOUP_ALPHABET = ["Foo", "{", "}", ":", ";", ".", ",", "(", ")", "[", "]", "id", "on", "x", '"s"',
                 "1", "?", "=>", "function", "switch", "case", "default", "let", "return"]

SOUP_WRAPPERS = [
    ("doc", "{}"),
    ("value", "import qmluic.QtWidgets\nQWidget {{ windowTitle: {} }}\n"),
    ("handler", "import qmluic.QtWidgets\nQPushButton {{ onClicked: {{ {} }} }}\n"),
]


def soup_count(maxlen):
    n = len(SOUP_ALPHABET)
    return sum(n ** k for k in range(1, maxlen + 1)) * len(SOUP_WRAPPERS)


def soup_case(index):
    """Random access into the token-soup space (simplest first)."""
    w = index % len(SOUP_WRAPPERS)
    k = index // len(SOUP_WRAPPERS)
    n = len(SOUP_ALPHABET)
    length = 1
    while k >= n ** length:
        k -= n ** length
        length += 1
    toks = []
    for _ in range(length):
        toks.append(SOUP_ALPHABET[k % n])
        k //= n
    body = " ".join(reversed(toks))
    name, tmpl = SOUP_WRAPPERS[w]
    return (f"soup/{name}/{index}", tmpl.format(body))


# ----------------------------------------------------------------- semantic stressors

STRESS_SINKS = [
    ("QWidget", "cursor"), ("QAction", "shortcut"), ("QLabel", "pixmap"),
    ("QColorDialog", "currentColor"), ("QGraphicsView", "backgroundBrush"),
    ("QWidget", "palette.window"), ("QWidget", "palette"), ("QComboBox", "model"),
    ("QListWidget", "model"), ("QListView", "model"), ("QWidget", "actions"), ("QLabel", "buddy"),
    ("QWidget", "windowTitle"), ("QSpinBox", "value"), ("QWidget", "enabled"),
    ("QDoubleSpinBox", "value"), ("QLabel", "alignment"), ("QLabel", "textFormat"),
    ("QInputDialog", "comboBoxItems"), ("QWidget", "font"), ("QWidget", "font.family"),
    ("QWidget", "sizePolicy"), ("QWidget", "sizePolicy.horizontalPolicy"), ("QWidget", "geometry"),
    ("QWidget", "geometry.x"), ("QWidget", "minimumSize"), ("QWidget", "windowIcon"),
    ("QWidget", "windowIcon.name"), ("QWidget", "windowIcon.normalOff"), ("QPushButton", "default_"),
    ("QAction", "separator"), ("QTableView", "horizontalHeader"),
    ("QTableView", "horizontalHeader.visible"), ("QTreeView", "header"), ("QWidget", "width"),
    ("QWidget", "onWindowTitleChanged"), ("QPushButton", "onClicked"), ("QWidget", "id"),
    ("QWidget", "QLayout.row"), ("QWidget", "QTabWidget.title"), ("VObj", "p"), ("VObj", "v"),
    ("VObj", "sl"), ("VObj", "e"), ("VObj", "f"), ("VObj", "u"), ("VObj", "wo"), ("VObj", "ro"),
    ("QWidget", "Foo"), ("QWidget", "Foo.Bar"), ("QWidget", "Foo.bar"), ("QWidget", "QLayout.Row"),
    ("QWidget", "QLayout"), ("QWidget", "foo.Bar"), ("QWidget", "on"), ("QWidget", "onX"),
    ("QWidget", "Qt.foo"), ("QWidget", "QWidget.windowTitle"), ("QWidget", "QSizePolicy.horizontalPolicy"),
    ("QMenu", "actions"), ("QToolButton", "actions"), ("QMenuBar", "actions"), ("QToolButton", "defaultAction"),
]


# ----------------------------------------------------------------- project (directory) cases

PROJECTS = [
    # name, {relative path: text}, [sources]
    ("self-cycle", {"Loop.qml": "Loop { }\n"}, ["Loop.qml"]),
    ("self-cycle-import", {"Loop.qml": "import qmluic.QtWidgets\nLoop { windowTitle: \"x\" }\n"}, ["Loop.qml"]),
    ("two-cycle", {"Ping.qml": "import qmluic.QtWidgets\nPong { }\n", "Pong.qml": "import qmluic.QtWidgets\nPing { }\n"},
     ["Ping.qml", "Pong.qml"]),
    ("cycle-as-child", {"Ping.qml": "import qmluic.QtWidgets\nPong { }\n", "Pong.qml": "import qmluic.QtWidgets\nPing { }\n",
                        "Main.qml": "import qmluic.QtWidgets\nQWidget { Ping { id: p; windowTitle: \"x\" } QLabel { buddy: p } }\n"},
     ["Main.qml"]),
    ("cycle-behind-real-base", {"Ouro.qml": "import qmluic.QtWidgets\nBoros { }\n", "Boros.qml": "import qmluic.QtWidgets\nOuro { }\n",
                                "Main.qml": "import qmluic.QtWidgets\nQWidget { QVBoxLayout { Ouro { } Boros { } } }\n"},
     ["Main.qml", "Ouro.qml"]),
    ("three-cycle-across-dirs", {"A.qml": "import qmluic.QtWidgets\nimport \"d\"\nB { }\n",
                                 "d/B.qml": "import qmluic.QtWidgets\nimport \"../e\"\nC { }\n",
                                 "e/C.qml": "import qmluic.QtWidgets\nimport \"..\"\nA { }\n",
                                 "Main.qml": "import qmluic.QtWidgets\nQDialog { A { onWindowTitleChanged: 1 } }\n"},
     ["Main.qml", "A.qml", "d/B.qml", "e/C.qml"]),
    ("import-cycle", {"Main.qml": "import qmluic.QtWidgets\nimport \"d\"\nQWidget { X { } }\n",
                      "d/X.qml": "import qmluic.QtWidgets\nimport \"..\"\nimport \".\"\nimport \"../d\"\nQWidget { }\n"},
     ["Main.qml", "d/X.qml"]),
    ("shadowing-qt-class", {"QLabel.qml": "import qmluic.QtWidgets\nQLabel { }\n",
                            "Main.qml": "import qmluic.QtWidgets\nQWidget { QLabel { text: \"x\" } }\n"},
     ["Main.qml", "QLabel.qml"]),
    ("component-with-syntax-error", {"Bad.qml": "import qmluic.QtWidgets\nQWidget { windowTitle: }\n",
                                     "Main.qml": "import qmluic.QtWidgets\nQWidget { Bad { } }\n"},
     ["Main.qml", "Bad.qml"]),
    ("empty-and-odd-files", {"Empty.qml": "", "Only.qml": "import qmluic.QtWidgets\n", "lower.qml": "import qmluic.QtWidgets\nQWidget { }\n",
                             "Main.qml": "import qmluic.QtWidgets\nQWidget { Empty { } Only { } lower { } }\n"},
     ["Main.qml", "Empty.qml", "Only.qml", "lower.qml"]),
    ("missing-import-dir", {"Main.qml": "import qmluic.QtWidgets\nimport \"nodir\"\nimport \"Main.qml\"\nQWidget { }\n"}, ["Main.qml"]),
]

STRESS_VALUES = [
    "1", "-1", "1.5", "true", '"s"', 'qsTr("s")', "null", "[]", '["a"]', '[qsTr("a"), "b"]',
    "[act]", "act", "[act, mn.menuAction()]", "mn.menuAction()", "Qt.AlignLeft",
    "Qt.AlignLeft | Qt.AlignTop", "Qt.IBeamCursor", "QKeySequence.Copy", "Qt.RichText",
    "{ }", "{ return }", "{ let x = 1; }", '{ switch (1) { default: "a" }; let x = 1; }',
    "{ switch (1) { } }", "cb.checked ? 1 : 2", "sp.value", "1 ? 2 : 3", "function() {}",
    "() => 1", "1 as void", '"a" as void', '{ if (true) "a" }',
    "{ if (true) return 1; else return 2; }", "Math.max(1, 2)", '"a".isEmpty()', "[1, 2]", "[[1]]",
    "Qt", "Qt.AlignLeft | 1", "~Qt.AlignLeft", "cb", "this", "this.windowTitle", "undefined",
    "9223372036854775808", "1 << 64", "1 / 0", "1 % 0", "-9223372036854775807 - 2", '"a" + 1',
    "{ let x = cb.checked ? 1 : 2; }", "{ let o = cb; o.checked }", "[cb, sp]",
    '{ if (cb.checked) { "a" } else { "b" }; 1 }', "{ return; 1 }", "sp.value as uint",
    "VObj.M1", "VObj.F0 | VObj.F1", "{ break }", "{ switch (sp.value) { case 1: break; default: } }",
    "{ ; }", "(1)", "((cb))", "cb.checked && sp.value", "!1", "-true", "+\"s\"",
    # references to the (anonymous) object itself and odd object lists
    "[this]", "[menuAction()]", "[this.menuAction()]", "menuAction()", "this.menuAction()", "[mn, act]", "[act, act]",
    "[null]", "[act, null]", "[mn.menuAction(), mn.menuAction()]", "[act.menu]", "mn",
    # constant folding at the edges of 64 bits
    "(-9223372036854775807 - 1) / -1", "(-9223372036854775807 - 1) % -1", "-(-9223372036854775807 - 1)", "(-9223372036854775807 - 1) * -1",
    "9223372036854775807 + 1", "~(-9223372036854775807 - 1)", "(-9223372036854775807 - 1) >> 63", "1 << 63", "-1 >>> 1", "1 >>> 70",
    "0 / 0", "0.0 / 0.0", "1e308 * 10.0", "5 % 0", "5.5 % 0.0", "(-9223372036854775807 - 1) - 1",
]


def stressor_docs():
    """(id, source) for every sink x value, in scalar position; plus map-notation variants."""
    ctx = ("QAction { id: act }\n    QMenu { id: mn }\n    QCheckBox { id: cb }\n"
           "    QSpinBox { id: sp }\n")
    for (cls, name), val in itertools.product(STRESS_SINKS, STRESS_VALUES):
        src = (f"import qmluic.QtWidgets\nQWidget {{\n    {ctx}    {cls} {{ {name}: {val} }}\n}}\n")
        yield (f"stress/{cls}.{name}={val}", src)
    for (cls, name) in STRESS_SINKS:
        base = name.split(".")[0]
        if base[0].isupper() or base in ("id",):
            continue
        for body in ["", "x: 1", "visible: cb.checked", "name: \"a\"", "family: sp.text",
                     "window: \"red\"", "a { b: 1 }", "onFoo: 1", "x: 1; x: 2"]:
            src = (f"import qmluic.QtWidgets\nQWidget {{\n    {ctx}    {cls} {{ {base} {{ {body} }} }}\n}}\n")
            yield (f"stress-map/{cls}.{base}{{{body}}}", src)


LAYOUT_VALUES = ["0", "-1", "1", "2", "65535", "65536", "2147483648", "4294967296", "4294967297", "1 - 1", "3 - 3", "0 * 5",
                 "1.5", "true", '"s"', "sp.value", "null", "Qt.AlignLeft", "QGridLayout.TopToBottom", "-0"]


def layout_stressor_docs():
    """Counts, flow and attached cell settings of grid/form/box layouts over edge values (zero, folded
    zero, negative, beyond 16/32 bits, wrong kinds), with children present so that the cursor runs."""
    head = "import qmluic.QtWidgets\nQWidget {\n    QSpinBox { id: sp }\n"
    for lay in ("QGridLayout", "QFormLayout", "QVBoxLayout"):
        for name in ("columns", "rows", "flow", "spacing", "horizontalSpacing"):
            for val in LAYOUT_VALUES:
                for extra in ("", "flow: QGridLayout.TopToBottom; "):
                    if extra and (name == "flow" or lay != "QGridLayout"):
                        continue
                    yield (f"stress-layout/{lay}.{extra}{name}={val}",
                           head + f"    QWidget {{ {lay} {{ {extra}{name}: {val}; QLabel {{ }} QLabel {{ }} QLabel {{ }} }} }}\n}}\n")
        for name in ("row", "column", "rowSpan", "columnSpan", "rowStretch", "columnStretch", "rowMinimumHeight",
                     "columnMinimumWidth", "alignment"):
            for val in LAYOUT_VALUES:
                yield (f"stress-layout/{lay}/QLayout.{name}={val}",
                       head + f"    QWidget {{ {lay} {{ QLabel {{ }} QLabel {{ QLayout.{name}: {val} }} QLabel {{ }} }} }}\n}}\n")


def identifier_stressor_docs():
    """Ids (and the names derived from them: function names, enumerators, members) that start with or contain
    non-ASCII letters, on objects that carry dynamic bindings and callbacks and are referred to by others."""
    head = "import qmluic.QtWidgets\nQWidget {\n    QCheckBox { id: cb }\n"
    for i, name in enumerate(["éditeur", "λabel", "Édit", "ßx", "日本", "é", "a\u0301b", "x_é", "_é", "ñ1", "Ωmega", "a日", "ǅx", "ﬁx"]):
        for j, body in enumerate(["visible: cb.checked", "onLinkActivated: { }", "visible: cb.checked; onLinkActivated: cb.checked = true",
                                  "font.bold: cb.checked", "text: \"c\""]):
            yield (f"stress-id/{i}/{j}", head + f"    QLabel {{ id: {name}; {body} }}\n    QLabel {{ text: {name}.text; buddy: {name} }}\n}}\n")
        yield (f"stress-id/{i}/root", f"import qmluic.QtWidgets\nQWidget {{\n    id: {name}\n    QCheckBox {{ id: cb }}\n    windowTitle: cb.text\n    onWindowTitleChanged: {{ }}\n}}\n")


def stressor_docs_all():
    yield from stressor_docs()
    yield from layout_stressor_docs()
    yield from identifier_stressor_docs()


# ----------------------------------------------------------------- depth ladders

def nested(kind, depth):
    """A document nesting `kind` to `depth`."""
    head = "import qmluic.QtWidgets\n"
    if kind == "binary":
        return head + "QSpinBox { id: s; value: " + " + ".join(["s.maximum"] * (depth + 1)) + " }\n"
    if kind == "binary-const":
        return head + "QSpinBox { value: " + " + ".join(["1"] * (depth + 1)) + " }\n"
    if kind == "logical":
        return head + "QCheckBox { id: c; checked: " + " && ".join(["c.enabled"] * (depth + 1)) + " }\n"
    if kind == "unary":
        return head + "QSpinBox { id: s; value: " + "-" .join([""] * (depth + 1)).replace("-", "- ") + "s.maximum }\n"
    if kind == "ternary":
        return head + "QSpinBox { id: s; value: " + "s.enabled ? 1 : " * depth + "2 }\n"
    if kind == "paren":
        return head + "QSpinBox { value: " + "(" * depth + "1" + ")" * depth + " }\n"
    if kind == "block":
        return head + "QPushButton { onClicked: " + "{ " * (depth + 1) + " }" * (depth + 1) + " }\n"
    if kind == "if":
        return (head + "QPushButton { id: b; onClicked: { " + "if (b.enabled) { " * depth +
                "b.click();" + " }" * depth + " } }\n")
    if kind == "object":
        return head + "QWidget { " * (depth + 1) + "}" * (depth + 1) + "\n"
    if kind == "array":
        return head + "QWidget { actions: " + "[" * depth + "]" * depth + " }\n"
    if kind == "dotted":
        return head + "QWidget { " + ".".join(["font"] * (depth + 1)) + ": 1 }\n"
    if kind == "member":
        return head + "VObj { id: a; ri: a" + ".p" * depth + ".i }\n"
    if kind == "statements":
        return head + "QPushButton { id: b; onClicked: { " + "b.click(); " * depth + "} }\n"
    if kind == "cases":
        return (head + "QSpinBox { id: s; value: { switch (s.maximum) { " +
                "".join(f"case {i}: return {i}; " for i in range(depth)) + "default: return 0; } } }\n")
    if kind == "children":
        return head + "QWidget { " + "QLabel { } " * depth + "}\n"
    if kind == "string-concat":
        return head + "QLabel { text: " + " + ".join(['"a"'] * (depth + 1)) + " }\n"
    raise KeyError(kind)


LADDER_KINDS = ["binary", "binary-const", "logical", "unary", "ternary", "paren", "block", "if",
                "object", "array", "dotted", "member", "statements", "cases", "children",
                "string-concat"]
