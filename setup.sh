#!/bin/sh
# Builds the verification framework from files on disk only (offline).
set -e
cd "$(dirname "$0")"
export CARGO_NET_OFFLINE=true
mkdir -p target/cshim
(cd engine/vdrive && cargo build --offline --quiet --target-dir ../../target/vdrive)
cargo build --offline --quiet --bin qmluic --manifest-path /repo/Cargo.toml --target-dir target/repo
if [ -f engine/cshim/getrandom_seed.c ]; then
  gcc -O2 -shared -fPIC -o target/cshim/getrandom_seed.so engine/cshim/getrandom_seed.c -ldl
fi
echo "setup ok"
