"""C06  Generated function bodies have sound control flow and define before use.

Every statement skeleton with <= k nodes (lib/progs.py: effect, expression statement, return,
if, if/else, switch with default in every position, break, block, let+use, shadowing block;
conditions simple / && / ternary) is translated in value context (three wrappers: explicit
return, completion value, bare) and in void (callback) context; the CFG of every emitted body is
recovered (lib/cfg.py) and checked: jumps target existing labels, no reachable block ends in
Q_UNREACHABLE() or falls off the end, value-returning bodies return a value on every reachable
path, every local is assigned on every path before it is read, conditions test bool locals.
"""
import json

import cfg
import progs
import vcommon as vc

LEVEL = "exploration"

DOC = """import qmluic.QtWidgets
QWidget {{
    id: root
    VObj {{ id: a }}
    VObj {{ id: b0 }}
    VObj {{ id: c0 }}
    VObj {{
        id: t
        {binding}
    }}
}}
"""

# sinks of every kind of type for bodies that yield no value (objects t, act, lab exist in DOC_SINKS)
VALUE_SINKS = ["VObj {{ id: t2; ri: {body} }}", "VObj {{ id: t2; rs: {body} }}", "VObj {{ id: t2; rb: {body} }}", "VObj {{ id: t2; rd: {body} }}",
               "VObj {{ id: t2; re: {body} }}", "VObj {{ id: t2; rp: {body} }}", "VObj {{ id: t2; rsl: {body} }}", "VObj {{ id: t2; rv: {body} }}",
               "VObj {{ id: t2; font.pointSize: {body} }}", "VObj {{ id: t2; cursor: {body} }}", "QAction {{ id: t2; shortcut: {body} }}",
               "VObj {{ id: t2; windowIcon.name: {body} }}", "QLabel {{ id: t2; pixmap: {body} }}", "QGraphicsView {{ id: t2; backgroundBrush: {body} }}",
               "QColorDialog {{ id: t2; currentColor: {body} }}", "VObj {{ id: t2; sizePolicy.horizontalStretch: {body} }}"]
DOC_SINKS = """import qmluic.QtWidgets
QWidget {{
    id: root
    VObj {{ id: a }}
    VObj {{ id: b0 }}
    VObj {{ id: c0 }}
    {binding}
}}
"""

VARIANTS = [("value", "ret"), ("value", "completion"), ("value", "bare"), ("void", None)]


def make_doc(skeleton, context, wrapper, label_style="const", void_expr="call", sink=None, value_style="int"):
    r = progs.Renderer(context, wrapper or "ret", label_style, void_expr, value_style)
    text, _ast = r.program(skeleton)
    name = sink or ("ri" if context == "value" else "onFired")
    return DOC.format(binding=f"{name}: {text}")


EXTRA = [
    # hand-written shapes beyond the skeleton grammar (nesting of ternary/&&/|| in values, returns in
    # conditions' arms, switch on strings/enums, nested switch with break, chains of else-if)
    ("value", "ri: { let x = a.b ? 1 : 2; return x; }"),
    ("value", "ri: { let x = a.b ? (a.c ? 1 : 2) : (b0.b ? 3 : 4); x; }"),
    ("value", "ri: (a.b && (a.c || b0.b)) ? 1 : 2"),
    ("value", "ri: (a.b || (a.c && (b0.b ? b0.c : c0.b))) ? (a.i > 1 ? 1 : 2) : 3"),
    ("value", "rb: a.b && (a.c ? b0.b : b0.c) || !c0.b"),
    ("value", "ri: { switch (a.i) { case 1: switch (a.j) { case 1: return 11; case 2: break; default: return 13; } return 10; case 2: break; default: return 3; } return 0; }"),
    ("value", "ri: { if (a.b) { return 1; } else if (a.c) { return 2; } else if (b0.b) { return 3; } else { return 4; } }"),
    ("value", "ri: { if (a.b) { return 1; } else if (a.c) { return 2; } return 3; }"),
    ("value", "rs: { switch (a.s) { case \"x\": return \"X\"; case \"y\": case \"z\": return \"YZ\"; } return a.s; }"),
    ("value", "ri: { switch (a.e) { case VObj.M0: return 0; case VObj.M1: return 1; default: break; } return 2; }"),
    ("value", "ri: { switch (a.b ? a.i : a.j) { case (a.c ? 1 : 2): return 1; default: return 2; } }"),
    ("value", "ri: { let x = 0; switch (a.i) { case 1: x = 1; case 2: x = x + 2; break; case 3: if (a.b) break; x = 3; default: x = x + 10; } return x; }"),
    ("value", "ri: { let p = a.p; if (p != null) { return p.i; } return 0; }"),
    ("value", "ri: { let x = a.j; switch (a.i) { case 1: let x = 7; break; default: break; } return x; }"),
    ("void", "onFired: { let x = 1; switch (a.i) { case 1: let x = 7; a.done(x); break; } a.done(x); }"),
    ("void", "onFiredWith: function(x: int, y: QString) { switch (x) { case 1: let y = \"in\"; a.say(y); break; } a.say(y); }"),
    ("value", "ri: { let p = a.b ? a : b0; let q = a.c ? p : c0; return q.i + p.j; }"),
    ("void", "onFired: { let x = a.b ? 1 : 2; }"),
    ("void", "onFired: { let x = a.b ? 1 : 2; a.done(x); }"),
    ("void", "onFired: { if (a.b) { a.act(); } let y = 1; a.done(y); }"),
    ("void", "onFired: { switch (a.i) { case 1: a.act(); break; default: a.done(2); } let z = a.b && a.c; a.sayBool(z); }"),
    ("void", "onFired: { if (a.b) return; if (a.c) { a.act(); return; } a.done(a.b || a.c ? 1 : 2); }"),
    ("void", "onFired: a.b ? a.act() : a.done(1)"),
    ("void", "onFired: { a.b && a.c ? a.act() : a.done(1); let w = 1; }"),
    ("void", "onFiredWith: function(x: int, y: QString) { if (x > 1 && !y.isEmpty()) { a.done(x); } else { a.say(y); } let z = x; a.done(z); }"),
]
# conditions that are constants (literal, folded comparison, negated literal) in every branching construct, with arms that
# compute temporaries: a branch known at translation time still leaves every remaining jump with its label and every
# read with its assignment
for _c in ("true", "false", "1 > 2", "2 > 1", "!true", "!false", '"a" == "a"'):
    EXTRA += [
        ("value", f"rs: {_c} ? \"off\" : a.s + \"x\""), ("value", f"rs: {_c} ? a.s + \"x\" : \"off\""),
        ("value", f"rs: {_c} ? a.s + \"x\" : a.t + \"y\""), ("value", f"ri: ({_c} ? a.i + 1 : a.j * 2) + a.i"),
        ("value", f"ri: {{ let r = a.j; if ({_c}) {{ r = a.i + 1; }} return r; }}"),
        ("value", f"ri: {{ let r = a.j; if ({_c}) {{ r = a.i + 1; }} else {{ r = a.i * 2; }} return r + 1; }}"),
        ("value", f"ri: {{ if ({_c}) {{ return a.i + 1; }} return a.j; }}"),
        ("value", f"rb: {_c} && a.b"), ("value", f"rb: {_c} || a.b"), ("value", f"rb: a.b && {_c}"), ("value", f"rb: a.b || {_c}"),
        ("value", f"rb: ({_c} && a.b) || a.c"), ("value", f"ri: ({_c} || a.b) ? a.i : a.j"),
        ("value", f"ri: {{ switch ({_c}) {{ case true: return a.i + 1; default: return a.j; }} }}"),
        ("void", f"onFired: {{ if ({_c}) {{ a.done(a.i + 1); }} a.act(); }}"),
        ("void", f"onFired: {{ if ({_c}) {{ a.done(a.i + 1); }} else {{ a.done(a.j); }} a.act(); }}"),
        ("void", f"onFired: {{ if ({_c}) return; a.done(a.i + 1); }}"),
        ("void", f"onFired: {{ let z = {_c} && a.b; a.sayBool(z); }}"), ("void", f"onFired: {{ let z = {_c} || a.b; a.sayBool(z); }}"),
        ("void", f"onFired: a.say({_c} ? \"off\" : a.s + \"x\")"), ("void", f"onFired: {_c} ? a.act() : a.done(a.i + 1)"),
    ]


def documents(tier, for_c14=False):
    k = 0
    for sk in progs.skeletons(3):
        for ctx, wr in VARIANTS:
            k += 1
            if for_c14 and k % 5:
                continue
            yield (f"skel/{k}", make_doc(sk, ctx, wr))
    for i, (ctx, b) in enumerate(EXTRA):
        yield (f"extra/{i}", DOC.format(binding=b))


def judge(t, vd, cid, src, meta):
    r = vd.job({"id": cid, "source": src, "modes": ["generate"]})
    if r.get("crashed") or r.get("timeout") or "modes" not in r or \
            r["modes"]["generate"].get("status") == "panic":
        t.lost.append({"id": cid})
        return
    g = r["modes"]["generate"]
    t.inc("programs")
    if r.get("has_syntax_error"):
        raise vc.MachineryError("generator produced a syntax error:\n" + src)
    if not vc.accepted(g):
        t.inc("rejected")
        return
    t.inc("accepted")
    t.distinct.add(src)
    try:
        fns = cfg.extract_functions(g["header"])
        if not fns:
            t.inc("accepted_without_body")     # constant-folded into the .ui
            return
        for fn in fns:
            probs, stats = cfg.analyze(fn)
            t.inc("bodies")
            for k, v in stats.items():
                t.inc(k, v)
            if stats.get("unreachable_blocks"):
                t.inc("bodies_with_filler_blocks")
            for clause, msg in probs:
                t.violation(f"cfg:{clause}", dict(meta, id=cid, source=src, problem=msg,
                                                   function="\n".join(fn["lines"])))
    except cfg.CfgParseError as e:
        raise vc.MachineryError(f"cannot parse an emitted body ({e}); header:\n{g['header'][:3000]}")


def has_tag(lst, tag):
    for s in lst:
        if s[0] == tag:
            return True
        if s[0] in ("BL", "SH") and has_tag(s[1], tag):
            return True
        if s[0] == "I" and has_tag(s[2], tag):
            return True
        if s[0] == "IE" and (has_tag(s[2], tag) or has_tag(s[3], tag)):
            return True
        if s[0] == "SW" and any(has_tag(b, tag) for _l, b in s[1]):
            return True
    return False


def has_two_case_switch(s):
    tag = s[0]
    if tag == "SW":
        if sum(1 for lab, _b in s[1] if lab == "c") >= 2:
            return True
        return any(has_two_case_switch(x) for _l, b in s[1] for x in b)
    if tag in ("BL", "SH"):
        return any(has_two_case_switch(x) for x in s[1])
    if tag == "I":
        return any(has_two_case_switch(x) for x in s[2])
    if tag == "IE":
        return any(has_two_case_switch(x) for x in s[2] + s[3])
    return False


def shard_work(shard, nshards, payload):
    tier = payload["tier"]
    vd = vc.worker_vdrive()
    t = vc.Tally()
    kmax = 5 if tier == "thorough" else 4
    k = 0
    for sk in progs.skeletons(kmax):
        for ctx, wr in VARIANTS:
            if k % nshards == shard:
                judge(t, vd, f"skel/{k}", make_doc(sk, ctx, wr), {"context": ctx, "wrapper": wr, "skeleton": repr(sk)})
                if k % 30011 == 0:
                    t.sample({"context": ctx, "wrapper": wr, "skeleton": repr(sk)})
            k += 1
    # one level deeper with simple conditions only, in the two contexts where the skeleton itself
    # decides what is returned (bare value body, callback)
    deep = kmax + 1
    for sk in progs.skeletons(deep, conds=("c",)):
        if sum(progs.size(x) for x in sk) != deep:
            continue
        for ctx, wr in (("value", "bare"), ("void", None)):
            if k % nshards == shard:
                judge(t, vd, f"deep/{k}", make_doc(sk, ctx, wr), {"context": ctx, "wrapper": wr, "skeleton": repr(sk)})
            k += 1
        # ... and with a trailing effect statement after the last compound statement (a join block
        # that keeps statements)
        if sk[-1][0] in ("I", "IE", "SW", "BL", "SH"):
            sk2 = sk + [("A",)]
            if k % nshards == shard:
                judge(t, vd, f"deep+tail/{k}", make_doc(sk2, "value", "bare"),
                      {"context": "value", "wrapper": "bare", "skeleton": repr(sk2)})
            k += 1
    # callbacks whose expression statements are values that are computed and dropped (literal, enum, object id,
    # property read) instead of calls
    for sk in progs.skeletons(kmax, conds=("c",)):
        if not has_tag(sk, "E"):
            continue
        for style in ("literal", "enum", "object", "read"):
            if k % nshards == shard:
                judge(t, vd, f"void-expr/{k}", make_doc(sk, "void", None, "const", style),
                      {"context": "void", "void_expr": style, "skeleton": repr(sk)})
            k += 1
    # value bodies bound to a member of a grouped value (own evaluation function per member)
    for sk in progs.skeletons(kmax - 1):
        for wr in ("ret", "bare", "completion"):
            if k % nshards == shard:
                judge(t, vd, f"member/{k}", make_doc(sk, "value", wr, sink="font.pointSize"),
                      {"context": "value", "wrapper": wr, "sink": "font.pointSize", "skeleton": repr(sk)})
            k += 1
    # string-valued bodies in which every constant is the same qsTr() call (equal sub-expressions at positions that
    # do not dominate each other)
    for sk in progs.skeletons(kmax - 1):
        for wr in ("ret", "bare"):
            if k % nshards == shard:
                judge(t, vd, f"tr-same/{k}", make_doc(sk, "value", wr, sink="rs", value_style="tr-same"),
                      {"context": "value", "wrapper": wr, "value_style": "tr-same", "skeleton": repr(sk)})
            k += 1
    # bodies that yield no value at all (effects only) bound to properties of every kind of type: must be refused;
    # accepted => a value-returning function without a value
    for sk in progs.skeletons(kmax - 1, conds=("c",)):
        rr = progs.Renderer("void")
        text, _ast = rr.program(sk)
        for si, sink in enumerate(VALUE_SINKS):
            if k % nshards == shard:
                judge(t, vd, f"void-body/{k}", DOC_SINKS.format(binding=sink.format(body=text)),
                      {"context": "value", "body": "void", "sink": sink.split(":")[0].strip(), "skeleton": repr(sk)})
            k += 1
    # case labels that span several basic blocks (?:, &&, ||), in every clause position
    for sk in progs.skeletons(kmax, conds=("c",)):
        if not any(has_two_case_switch(x) for x in sk):
            continue
        for style in ("ternary", "and", "or"):
            for ctx, wr in (("value", "ret"), ("void", None)):
                if k % nshards == shard:
                    judge(t, vd, f"labels/{k}", make_doc(sk, ctx, wr, style),
                          {"context": ctx, "wrapper": wr, "labels": style, "skeleton": repr(sk)})
                k += 1
    for i, (ctx, b) in enumerate(EXTRA):
        if i % nshards == shard:
            judge(t, vd, f"extra/{i}", DOC.format(binding=b), {"context": ctx, "extra": b})
    return t


def main(tier, t0):
    vc.ensure_vdrive()
    tally = vc.merge_tallies(vc.run_sharded(shard_work, {"tier": tier}))
    c = tally.counts
    cov = {
        "evaluations": c.get("programs", 0),
        "distinct_nontrivial": c.get("bodies", 0),
        "rule": "programs = every statement skeleton up to the node bound x 4 contexts; non-trivial = an "
                "accepted program whose emitted body (with >= 1 basic block) was recovered and checked",
        "exhaustive": True,
        "bound_completed": {"skeleton_nodes": 5 if tier == "thorough" else 4, "contexts": [f"{a}/{b}" for a, b in VARIANTS],
                            "extra_level_simple_conditions": (6 if tier == "thorough" else 5)},
        "accepted": c.get("accepted", 0), "rejected": c.get("rejected", 0),
        "bodies": c.get("bodies", 0), "blocks": c.get("blocks", 0), "edges": c.get("edges", 0),
        "reachable_blocks": c.get("reachable", 0),
        "bodies_with_unreachable_filler_blocks": c.get("bodies_with_filler_blocks", 0),
    }
    assumptions = [
        "bodies are read with a tolerant line grammar (labels, goto, if/else goto, return, Q_UNREACHABLE, "
        "assignments); an unparsable body is a machinery failure, not a verdict",
        "generated programs initialise every user variable at its declaration, so definite assignment is "
        "demanded of every local",
    ]
    return vc.finish("C06", tier, LEVEL, tally, cov, assumptions, t0)


def replay(path):
    vc.ensure_vdrive()
    r = json.load(open(path))
    vd = vc.VDrive()
    t = vc.Tally()
    judge(t, vd, 0, r["case"]["source"], {})
    vd.close()
    if t.violations:
        print(f"VIOLATION property=C06 replay={path}")
        for sig, c in t.violations:
            print("  ", sig, c["problem"])
        return 1
    print("replay: holds now")
    return 0
