"""C18  QML components in directories resolve as custom widgets, in any order.

Project layouts (deviation-bounded around a baseline: <= 2 deviations quick, <= 3 on a reduced menu
thorough) over directories {., sub[, other]}, component files A (.), B, C (sub)[, D (other)] whose
root types range over Qt classes, each other (mutual and self inheritance) and an unknown name,
with string imports in every file (none, plain, trailing slash, ./ prefix, '..', missing
directory, cycles); every non-empty subset of {Main.qml, A.qml, sub/B.qml} in every order is
given to the real CLI.  Oracle: termination; per source the verdict and output bytes equal those of
the source translated alone (order independence); <customwidgets> lists exactly the instantiated
custom classes once each with extends = class of the component's own root object and the
file-name-rule header; instances accept base-class properties.
"""
import itertools
import json
import os
import shutil
import subprocess

import uiread
import vcommon as vc

LEVEL = "exploration"
QT = {"QWidget": True, "QDialog": True, "QLabel": True, "QFrame": True}

# a layout is a dict; BASE is accepted and boring
BASE = {
    "roots": {"A": "QWidget", "B": "QLabel", "C": "QDialog"},
    "imports": {"A": ["sub"], "B": [".."], "C": [".."], "Main": ["sub"]},
    "use": ["A", "B", "C"],
    "props": True,
}
DIRS = {"A": ".", "B": "sub", "C": "sub", "D": "other", "Main": "."}

DEVIATIONS = (
    [("root", "A", t) for t in ("QDialog", "B", "C", "A", "NoSuch")] +
    [("root", "B", t) for t in ("QWidget", "C", "A", "B")] +
    [("root", "C", t) for t in ("B", "A", "C")] +
    [("imp", "A", v) for v in ([], ["sub/"], ["./sub"], ["sub", "sub"], ["nodir"], ["."])] +
    [("imp", "B", v) for v in ([], ["."], ["../"], ["../sub"], ["nodir", ".."])] +
    [("imp", "C", v) for v in ([], ["../sub/.."])] +
    [("imp", "Main", v) for v in ([], ["sub/"], ["./sub"], ["sub", "."], ["nodir"], ["sub", "nodir"])] +
    [("nomod", w, True) for w in ("A", "B", "C")] +        # component file without the module import: Qt classes are not visible *there*
    [("ver", w, v) for w in ("A", "B", "C", "Main") for v in (["module"], ["string"], ["module", "string"])] +
    [("opt", None, "no-lowercase")] +                      # --no-lowercase-file-name: the file-name rule keeps the case
    [("link", w, k) for w in ("A", "B", "C") for k in ("symlink", "hardlink")] +      # the component file is a link to a regular file
    [("use", None, u) for u in ([], ["A"], ["B"], ["C"], ["A", "A"], ["A", "B", "A"], ["B", "C", "B", "C"], ["C", "B", "A"])]
)


def apply(layout, devs):
    l = json.loads(json.dumps(layout))
    for kind, who, val in devs:
        if kind == "root":
            l["roots"][who] = val
        elif kind == "imp":
            l["imports"][who] = list(val)
        elif kind == "use":
            l["use"] = list(val)
        elif kind == "nomod":
            l.setdefault("nomodule", []).append(who)
        elif kind == "opt":
            l.setdefault("options", []).append(val)
        elif kind == "link":
            l.setdefault("links", {})[who] = val
        elif kind == "ver":
            l.setdefault("versions", {})[who] = list(val)     # versioned imports: the version is ignored (warning)
    return l


def layouts(tier):
    yield ()
    for d in DEVIATIONS:
        yield (d,)
    for a, b in itertools.combinations(DEVIATIONS, 2):
        if (a[0], a[1]) == (b[0], b[1]):
            continue
        if tier != "thorough" and any(x[0] == "ver" and x[2] != ["module", "string"] for x in (a, b)):
            continue        # quick: versioned imports pair up in their combined form only
        if tier != "thorough" and any(x[0] == "nomod" for x in (a, b)) and not any(x[0] == "root" for x in (a, b)):
            continue        # quick: a file without the module import pairs up with root-type deviations only
        if tier != "thorough" and any(x[0] in ("opt", "link") for x in (a, b)) and not any(x[0] in ("root", "use") for x in (a, b)):
            continue        # quick: the option and linked files pair up with root-type and instantiation deviations only
        yield (a, b)
    if tier == "thorough":
        menu = [d for d in DEVIATIONS if d[0] == "root" or (d[0] == "imp" and d[2] in ([], ["nodir"]))]
        for t in itertools.combinations(menu, 3):
            if len({(x[0], x[1]) for x in t}) == 3:
                yield t


def file_text(name, layout):
    ver = layout.get("versions", {}).get(name, [])
    imps = "".join(f'import "{i}"{" 1.0" if "string" in ver else ""}\n' for i in layout["imports"].get(name, []))
    head = ("" if name in layout.get("nomodule", []) else "import qmluic.QtWidgets" + (" 6.2" if "module" in ver else "") + "\n") + imps
    if name == "Main":
        kids = []
        for i, u in enumerate(layout["use"]):
            prop = f' windowTitle: "w{i}"' if layout.get("props") else ""
            kids.append(f"    {u} {{ id: k{i};{prop} }}")
        return head + "QWidget {\n" + "\n".join(kids) + "\n}\n"
    return head + layout["roots"][name] + " { }\n"


def write_project(root, layout):
    shutil.rmtree(root, ignore_errors=True)
    os.makedirs(os.path.join(root, "sub"))
    os.makedirs(os.path.join(root, "other"))
    os.makedirs(os.path.join(root, "store"))
    paths = {}
    for name in ("A", "B", "C", "Main"):
        rel = os.path.normpath(os.path.join(DIRS[name], name + ".qml"))
        link = layout.get("links", {}).get(name)
        if link:
            # the text lives in store/<name>.data (not a .qml name, not an imported directory)
            real = os.path.join(root, "store", name + ".data")
            with open(real, "w") as f:
                f.write(file_text(name, layout))
            if link == "symlink":
                os.symlink(os.path.relpath(real, os.path.dirname(os.path.join(root, rel))), os.path.join(root, rel))
            else:
                os.link(real, os.path.join(root, rel))
        else:
            with open(os.path.join(root, rel), "w") as f:
                f.write(file_text(name, layout))
        paths[name] = rel
    return paths


# --------------------------------------------------------------------------- reference model

def import_dirs(name, layout):
    """Directories visible from file `name` (normalised, relative to the project root), or None
    if one of its imports names a missing directory."""
    base = DIRS[name]
    out = [os.path.normpath(base)]
    for i in layout["imports"].get(name, []):
        d = os.path.normpath(os.path.join(base, i))
        if d.startswith("..") or d not in (".", "sub", "other"):
            return None
        out.append(d)
    return out


def resolve(name_from, type_name, layout):
    """-> ('qt', cls) | ('comp', X) | None"""
    dirs = import_dirs(name_from, layout)
    if type_name in ("A", "B", "C"):
        if dirs is not None and os.path.normpath(DIRS[type_name]) in dirs:
            return ("comp", type_name)
        if dirs is None:
            # the directories that do exist are still imported
            base = DIRS[name_from]
            ok = [os.path.normpath(base)]
            for i in layout["imports"].get(name_from, []):
                d = os.path.normpath(os.path.join(base, i))
                if d in (".", "sub", "other"):
                    ok.append(d)
            if os.path.normpath(DIRS[type_name]) in ok:
                return ("comp", type_name)
        return None
    if type_name in QT and name_from not in layout.get("nomodule", []):
        return ("qt", type_name)
    return None


def derives_widget(comp, layout, seen=()):
    if comp in seen:
        return False
    r = resolve(comp, layout["roots"][comp], layout)
    if r is None:
        return False
    if r[0] == "qt":
        return True
    return derives_widget(r[1], layout, seen + (comp,))


def source_model(src, layout):
    """-> (accepted?, {class: extends} custom widgets expected) or None when not judged."""
    if src == "Main":
        if import_dirs("Main", layout) is None:
            return (False, None)
        cw = {}
        for u in layout["use"]:
            r = resolve("Main", u, layout)
            if r is None or not derives_widget(u, layout):
                return (False, None)
            cw[u] = layout["roots"][u]
        return (True, cw)
    # a component file given as a source: its root object must be a widget
    if import_dirs(src, layout) is None:
        return (False, None)
    r = resolve(src, layout["roots"][src], layout)
    if r is None:
        return (False, None)
    if r[0] == "qt":
        return (True, {})
    if not derives_widget(r[1], layout):
        return (False, None)
    return (True, {r[1]: layout["roots"][r[1]]})


# --------------------------------------------------------------------------- execution

def run(root, args, timeout=60, options=()):
    cmd = [vc.QMLUIC_BIN, "generate-ui", "--foreign-types", vc.METATYPES] + \
        (["--no-lowercase-file-name"] if "no-lowercase" in options else []) + args
    try:
        p = subprocess.run(cmd, cwd=root, env=dict(os.environ, NO_COLOR="1"), stdout=subprocess.PIPE,
                           stderr=subprocess.PIPE, timeout=timeout)
        return p.returncode, p.stderr.decode("utf-8", "replace")
    except subprocess.TimeoutExpired:
        return "timeout", ""


def outputs_of(root, rel, options=()):
    d = os.path.dirname(rel)
    stem = os.path.splitext(os.path.basename(rel))[0]
    if "no-lowercase" not in options:
        stem = stem.lower()
    out = {}
    for fn in (stem + ".ui", "uisupport_" + stem + ".h"):
        p = os.path.join(root, d, fn)
        out[fn] = open(p, "rb").read() if os.path.exists(p) else None
    return out


def clean_outputs(root):
    for dp, _d, fns in os.walk(root):
        for fn in fns:
            if fn.endswith(".ui") or fn.endswith(".h"):
                os.remove(os.path.join(dp, fn))


def judge_layout(t, scratch, lid, devs):
    layout = apply(BASE, devs)
    root = os.path.join(scratch, "p")
    paths = write_project(root, layout)
    case = {"id": lid, "deviations": [list(d) for d in devs], "layout": layout}
    t.inc("layouts")
    t.distinct.add(json.dumps(devs))
    sources = ["Main", "A", "B"]
    options = tuple(layout.get("options", []))
    keep_case = "no-lowercase" in options
    alone = {}
    for s in sources:
        clean_outputs(root)
        rc, err = run(root, [paths[s]], options=options)
        t.inc("cli_runs")
        if rc == "timeout":
            t.violation("termination:single-source", dict(case, source=s))
            return
        if rc not in (0, 1):
            t.violation(f"crash:exit-{rc}", dict(case, source=s, stderr=err[-300:]))
            return
        alone[s] = (rc, outputs_of(root, paths[s], options))
        m = source_model(s, layout)
        acc = rc == 0
        if m is not None:
            t.inc("verdicts_judged")
            if acc != m[0]:
                t.violation("acceptance:" + ("accepted-unresolvable" if acc else "rejected-resolvable"),
                            dict(case, source=s, stderr=err[-400:]))
                continue
        if acc:
            stem_ = os.path.splitext(os.path.basename(paths[s]))[0]
            ui = alone[s][1][(stem_ if keep_case else stem_.lower()) + ".ui"]
            if ui is None:
                t.violation("outputs:accepted-without-ui", dict(case, source=s))
                continue
            doc = uiread.parse(ui)
            cws = doc.find("customwidgets")
            listed = []
            if cws is not None:
                for cw in cws.findall("customwidget"):
                    listed.append((cw.find("class").text, cw.find("extends").text, cw.find("header").text))
            names = [c for c, _e, _h in listed]
            if len(set(names)) != len(names):
                t.violation("customwidgets:listed-more-than-once", dict(case, source=s, listed=listed))
            if m is not None and m[0]:
                want = m[1]
                t.inc("customwidget_lists_checked")
                if set(names) != set(want):
                    t.violation("customwidgets:wrong-set", dict(case, source=s, listed=listed, expected=want))
                for c, e, h in listed:
                    if c in want and e != want[c]:
                        t.violation("customwidgets:extends-is-not-the-root-class", dict(case, source=s, listed=listed, expected=want))
                    if h != (c if keep_case else c.lower()) + ".h":
                        t.violation("customwidgets:header", dict(case, source=s, listed=listed))
                if s == "Main" and layout.get("props"):
                    # instances accepted the base-class property
                    for i, u in enumerate(layout["use"]):
                        e = uiread.find_object(doc, f"k{i}")
                        p = uiread.prop(e, "windowTitle") if e is not None else None
                        if e is None or e.attrs.get("class") != u or p is None or p.children[0].text != f"w{i}":
                            t.violation("instances:base-class-property-lost", dict(case, instance=i))
    # every non-empty subset in every order
    for k in range(2, len(sources) + 1):
        for arr in itertools.permutations(sources, k):
            clean_outputs(root)
            rc, err = run(root, [paths[s] for s in arr], options=options)
            t.inc("cli_runs")
            t.inc("arrangements")
            if rc == "timeout":
                t.violation("termination:multi-source", dict(case, order=list(arr)))
                continue
            if rc not in (0, 1):
                t.violation(f"crash:exit-{rc}", dict(case, order=list(arr), stderr=err[-300:]))
                continue
            failed = False
            for s in arr:
                got = outputs_of(root, paths[s], options)
                arc, aout = alone[s]
                if failed:
                    want = {k2: None for k2 in aout}
                else:
                    want = aout if arc == 0 else {k2: None for k2 in aout}
                if arc != 0:
                    failed = True
                if got != want:
                    t.violation("order-dependence:outputs-differ-from-single-source-run",
                                dict(case, order=list(arr), source=s,
                                     differing=[k2 for k2 in got if got[k2] != want[k2]]))
            exp_rc = 1 if any(alone[s][0] != 0 for s in arr) else 0
            if rc != exp_rc:
                t.violation("order-dependence:exit-status", dict(case, order=list(arr), exit=rc, expected=exp_rc))


def shard_work(shard, nshards, payload):
    import time
    t_start = time.time()
    t = vc.Tally()
    with vc.scratch_dir(f"c18-{shard}") as scratch:
        for k, devs in enumerate(layouts(payload["tier"])):
            if k % nshards != shard:
                continue
            judge_layout(t, scratch, k, devs)
            # a tree that is broken badly (every run wrong, or every run slow) is decided after a handful of
            # layouts: stop this shard once it holds plenty of violations and say so in the evidence
            if sum(t.viol_counts.values()) >= 60 or (time.time() - t_start > 600 and t.viol_counts):
                t.inc("shards_stopped_early")
                break
            if k % 97 == 0:
                t.sample({"deviations": [list(d) for d in devs]})
    return t


def main(tier, t0):
    vc.ensure_cli()
    tally = vc.merge_tallies(vc.run_sharded(shard_work, {"tier": tier}))
    c = tally.counts
    cov = {
        "evaluations": c.get("cli_runs", 0),
        "distinct_nontrivial": len(tally.distinct),
        "rule": "distinct project layouts = baseline + every set of <= 2 deviations (root types incl. mutual/self "
                "inheritance and unknown names; import lists incl. trailing slash, ./, .., missing directory, "
                "cycles; instantiation lists); each layout: 3 single-source runs + all 12 multi-source orders",
        "exhaustive": not c.get("shards_stopped_early", 0),
        "shards_stopped_early_with_violations": c.get("shards_stopped_early", 0),
        "bound_completed": "2 deviations" + (" + 3 on a reduced menu" if tier == "thorough" else ""),
        "layouts": c.get("layouts", 0), "arrangements": c.get("arrangements", 0),
        "verdicts_judged": c.get("verdicts_judged", 0),
        "customwidget_lists_checked": c.get("customwidget_lists_checked", 0),
    }
    assumptions = [
        "a type is usable in a document iff its file is in the document's directory or in a directory the "
        "document imports by string (imports are not transitive); a component is a widget iff its chain of "
        "root types ends in a Qt widget class without a cycle",
        "per-source outputs of a multi-source run are compared with the single-source run of the same source; "
        "sources named after the first rejected one are not processed (the command stops there)",
    ]
    return vc.finish("C18", tier, LEVEL, tally, cov, assumptions, t0)


def replay(path):
    vc.ensure_cli()
    r = json.load(open(path))
    t = vc.Tally()
    with vc.scratch_dir("c18r") as scratch:
        judge_layout(t, scratch, 0, tuple(tuple(d) if not isinstance(d[2], list) else (d[0], d[1], d[2])
                                          for d in r["case"]["deviations"]))
    if t.violations:
        print(f"VIOLATION property=C18 replay={path}")
        for sig, c in t.violations:
            print("  ", sig)
        return 1
    print("replay: holds now")
    return 0
