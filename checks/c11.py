"""C11  The object tree and child order of the QML document are preserved.

All object trees up to a depth/fan-out bound over {widgets, the four layouts, spacer, action,
separator action, menu, tab widget, VObj}; the expected element tree is built from the document
by the stated rules and compared node for node with the parsed .ui; trees the rules forbid must
be rejected. A second family enumerates explicit `actions:` lists (all ordered subsets).
"""
import itertools
import json

import qml
import uiread
import vcommon as vc

LEVEL = "exploration"

# kind code -> (QML class, structural kind)
KINDS = {
    "W": ("QWidget", "widget"), "LB": ("QLabel", "widget"), "GB": ("QGroupBox", "widget"),
    "VB": ("QVBoxLayout", "layout"), "HB": ("QHBoxLayout", "layout"), "GR": ("QGridLayout", "layout"),
    "FM": ("QFormLayout", "layout"), "SP": ("QSpacerItem", "spacer"), "AC": ("QAction", "action"),
    "SEP": ("QAction", "sep"), "MN": ("QMenu", "menu"), "TW": ("QTabWidget", "widget"),
    "VO": ("VObj", "widget"), "VS": ("VSub", "widget"), "MB": ("QMenuBar", "widget"),
    # classes that merely derive from the specially treated ones (fixtures/vtypes.json)
    "VM": ("VMenu", "menu"), "VA": ("VAction", "action"), "VT": ("VTabs", "widget"), "VX": ("VBox", "layout"),
    # QML components lying beside the document (COMPONENT_FILES): instances are objects like any other
    "CP": ("Panel", "widget"), "CM": ("MenuComp", "menu"), "CG": ("GroupComp", "widget"),
}
COMPONENT_FILES = {"Panel.qml": "import qmluic.QtWidgets\nQWidget { }\n", "MenuComp.qml": "import qmluic.QtWidgets\nQMenu { }\n",
                   "GroupComp.qml": "import qmluic.QtWidgets\nQGroupBox { title: \"g\" }\n"}
COMPONENT_DIR = [None]


def uses_component(shape):
    return shape[0] in ("CP", "CM", "CG") or any(uses_component(k) for k in shape[1])


def component_dir():
    """Per-process scratch directory holding the component files (removed at exit)."""
    if COMPONENT_DIR[0] is None:
        import atexit
        import shutil
        import tempfile
        import os
        d = tempfile.mkdtemp(prefix="verif-c11-", dir=os.environ.get("VERIF_SCRATCH", tempfile.gettempdir()))
        for fn, text in COMPONENT_FILES.items():
            with open(os.path.join(d, fn), "w") as f:
                f.write(text)
        atexit.register(shutil.rmtree, d, True)
        COMPONENT_DIR[0] = d
    return COMPONENT_DIR[0]
WIDGETISH = ("widget", "menu")


def make_obj(code, counter):
    cls, kind = KINDS[code]
    o = qml.Obj(cls, f"o{counter[0]}", tag=code)
    counter[0] += 1
    if kind == "sep":
        o.add(qml.B("separator", "true"))
    elif kind == "action":
        o.add(qml.B("text", '"t"'))
    return o


def build_tree(shape, counter=None):
    """shape = (code, [child shapes])"""
    counter = counter or [0]
    code, kids = shape
    o = make_obj(code, counter)
    for k in kids:
        o.add(build_tree(k, counter))
    return o


class Reject(Exception):
    pass


def expected(o, parent_kind):
    """-> expected node (tag, class, name, kids, addactions) or None for a separator."""
    cls, kind = KINDS[o.tag]
    if parent_kind is None:
        if kind not in WIDGETISH:
            raise Reject("root is not a widget")
    elif parent_kind in WIDGETISH:
        if kind == "spacer":
            raise Reject("spacer under widget")
    elif parent_kind == "layout":
        if kind in ("action", "sep"):
            raise Reject("action under layout")
    else:
        raise Reject(f"child under {parent_kind}")
    if kind in ("action", "sep", "spacer") and o.children:
        raise Reject(f"{kind} with children")
    kids = []
    adds = []
    for c in o.children:
        n = expected(c, kind)
        ck = KINDS[c.tag][1]
        if kind in WIDGETISH:
            if ck == "action":
                adds.append(c.id)
            elif ck == "sep":
                adds.append("separator")
            elif ck == "menu":
                adds.append(c.id)
        if n is not None:
            kids.append(n)
    if kind == "sep":
        return None
    tag = {"widget": "widget", "menu": "widget", "layout": "layout", "spacer": "spacer",
           "action": "action"}[kind]
    return (tag, cls if tag in ("widget", "layout") else None, o.id, tuple(kids), tuple(adds))


def from_xml(e):
    if e.tag == "widget":
        kids = tuple(from_xml(c) for c in e.children if c.tag in ("widget", "layout", "action"))
        adds = tuple(c.attrs.get("name") for c in e.findall("addaction"))
        return ("widget", e.attrs.get("class"), e.attrs.get("name"), kids, adds)
    if e.tag == "layout":
        kids = []
        for it in e.findall("item"):
            inner = [c for c in it.children if c.tag in ("widget", "layout", "spacer")]
            if len(inner) != 1 or len(it.children) != 1:
                kids.append(("bad-item", None, None, (), ()))
            else:
                kids.append(from_xml(inner[0]))
        stray = [c.tag for c in e.children if c.tag in ("widget", "layout", "spacer", "action")]
        if stray:
            kids.append(("not-wrapped-in-item", None, None, (), ()))
        return ("layout", e.attrs.get("class"), e.attrs.get("name"), tuple(kids), ())
    if e.tag == "spacer":
        return ("spacer", None, e.attrs.get("name"), (), ())
    if e.tag == "action":
        return ("action", None, e.attrs.get("name"), (), ())
    raise ValueError(e.tag)


def first_difference(a, b, path="root"):
    if a is None or b is None:
        return f"{path}: {a} vs {b}"
    for i, what in enumerate(("tag", "class", "name")):
        if a[i] != b[i]:
            return f"{path}: {what} expected {a[i]!r} got {b[i]!r}"
    if a[4] != b[4]:
        return f"{path}/{a[2]}: addaction expected {list(a[4])} got {list(b[4])}"
    if len(a[3]) != len(b[3]):
        return (f"{path}/{a[2]}: children expected {[k[2] for k in a[3]]} got "
                f"{[k[2] for k in b[3]]}")
    for x, y in zip(a[3], b[3]):
        if x != y:
            if x[:3] != y[:3]:
                return (f"{path}/{a[2]}: child order/identity expected {[k[2] for k in a[3]]} "
                        f"got {[k[2] for k in b[3]]}")
            return first_difference(x, y, path + "/" + str(a[2]))
    return None


# --------------------------------------------------------------------------- enumeration

FULL = ["W", "LB", "VB", "HB", "GR", "FM", "SP", "AC", "SEP", "MN", "TW", "VO", "VM", "VA", "VT", "VX"]
SMALL = ["W", "VB", "AC", "MN", "SP"]
MID = ["W", "VB", "GR", "AC", "SEP", "MN", "SP"]


def shapes_depth2(kinds, fan):
    for root in kinds:
        for n in range(fan + 1):
            for kids in itertools.product(kinds, repeat=n):
                yield (root, [(k, []) for k in kids])


def shapes_depth3(root_kinds, kinds, fan):
    leafsets = []
    for n in range(fan + 1):
        leafsets += [list(x) for x in itertools.product(kinds, repeat=n)]
    child_opts = [(k, [(g, []) for g in gs]) for k in kinds for gs in leafsets]
    for root in root_kinds:
        for n in range(1, fan + 1):
            for kids in itertools.product(child_opts, repeat=n):
                yield (root, list(kids))


def shapes_depth4(root_kinds, kinds):
    # chains with one sibling at each level (fan-out 2 only at the deepest level)
    leafsets = [[]] + [[a] for a in kinds] + [[a, b] for a in kinds for b in kinds]
    for root in root_kinds:
        for a in kinds:
            for b in kinds:
                for gs in leafsets:
                    yield (root, [(a, [(b, [(g, []) for g in gs])])])


def shapes_childless():
    """Objects that must have no children (spacer, action, separator), each in a position where it is
    itself allowed, with every kind of child: must be rejected, never dropped silently."""
    for x in FULL:
        yield ("W", [("VB", [("SP", [(x, [])])])])
        yield ("W", [("GR", [("LB", []), ("SP", [(x, [])])])])
        yield ("W", [("AC", [(x, [])])])
        yield ("W", [("MN", [("AC", [(x, [])]), ("AC", [])])])
        yield ("W", [("SEP", [(x, [])])])
        yield ("W", [("VA", [(x, [])])])
        yield ("MB", [("VM", [("AC", [(x, [])])])])


def shapes_deep():
    """Chains: every object must still be there at any depth the document is accepted with (widgets only,
    widget/layout alternating, with a sibling at the bottom)."""
    for depth in (6, 12, 24, 31, 32, 33, 34, 40, 48, 64):
        for pattern in (("W",), ("W", "VB"), ("GB", "GR"), ("W", "W", "HB")):
            shape = ("LB", [])
            for lvl in range(depth - 1, -1, -1):
                code = pattern[lvl % len(pattern)]
                kids = [shape] + ([("LB", [])] if lvl == depth - 1 else [])
                if KINDS[code][1] == "layout" and lvl == 0:
                    code = "W"
                shape = (code, kids)
            if KINDS[shape[0]][1] == "layout":
                shape = ("W", [shape])
            yield shape


def shapes_components():
    """Instances of QML components with children of every kind (alone and in pairs), as children and as root."""
    for comp in ("CP", "CM", "CG"):
        for x in FULL:
            yield ("W", [(comp, [(x, [])])])
            yield ("W", [(comp, [(x, []), ("AC", [])]), ("LB", [])])
            yield (comp, [(x, [])])
        for x, y in itertools.product(["W", "VB", "AC", "SEP", "MN", "LB", "CP"], repeat=2):
            yield ("W", [(comp, [(x, []), (y, [])])])
        yield ("W", [(comp, [("VB", [("LB", []), ("CP", [("LB", [])])])])])


def all_shapes(tier):
    yield from shapes_depth2(FULL, 3)
    yield from shapes_components()
    yield from shapes_childless()
    yield from shapes_deep()
    # menu bars and tool bars with menu-like children (plain and derived)
    for parent in ("MB", "MN", "VM", "TW", "VT"):
        for kids in itertools.product(["MN", "VM", "AC", "VA", "SEP", "W"], repeat=2):
            yield ("W", [(parent, [(k, []) for k in kids])])
    if tier == "quick":
        yield from shapes_depth3(["W"], SMALL, 2)
    else:
        yield from shapes_depth3(["W", "MN", "TW"], MID, 2)
        yield from shapes_depth4(["W"], MID)


def action_list_docs():
    """Widget with three action-like children and every explicit `actions:` list."""
    for parent in ("W", "MN", "MB"):
        for trio in itertools.product(["AC", "SEP", "MN"], repeat=3):
            for k in range(0, 4):
                for perm in itertools.permutations(range(3), k):
                    yield (parent, trio, perm)


def build_action_doc(parent, trio, perm, menu_action_call=True):
    counter = [0]
    root = make_obj("W", counter)
    p = make_obj(parent, counter)
    root.add(p)
    kids = [make_obj(c, counter) for c in trio]
    refs = []
    for i in perm:
        if trio[i] == "MN":
            refs.append(kids[i].id + ".menuAction()")
        else:
            refs.append(kids[i].id)
    p.add(qml.B("actions", "[" + ", ".join(refs) + "]"))
    for k in kids:
        p.add(k)
    exp_adds = []
    for i in perm:
        exp_adds.append("separator" if trio[i] == "SEP" else kids[i].id)
    return root, p, tuple(exp_adds)


def documents(tier, for_c14=False):
    for i, shape in enumerate(all_shapes("quick")):
        if for_c14 and i % 7:
            continue
        yield (f"tree/{i}", qml.render(build_tree(shape), oneline=True))
    for j, (parent, trio, perm) in enumerate(action_list_docs()):
        if for_c14 and j % 5:
            continue
        root, _p, _e = build_action_doc(parent, trio, perm)
        yield (f"actions/{j}", qml.render(root, oneline=True))


def shape_str(shape):
    code, kids = shape
    return code + ("(" + " ".join(shape_str(k) for k in kids) + ")" if kids else "")


def judge_tree(t, cid, shape, src, r):
    case = {"id": cid, "shape": shape_str(shape) if shape else None, "source": src}
    if r.get("crashed") or r.get("timeout") or "modes" not in r or \
            r["modes"]["generate"].get("status") == "panic":
        t.lost.append({"id": cid})
        return None
    g = r["modes"]["generate"]
    return g, case


def shard_work(shard, nshards, payload):
    tier = payload["tier"]
    vd = vc.worker_vdrive()
    t = vc.Tally()
    for i, shape in enumerate(all_shapes(tier)):
        if i % nshards != shard:
            continue
        judge_shape(t, vd, i, shape)
    for j, (parent, trio, perm) in enumerate(action_list_docs()):
        if j % nshards != shard:
            continue
        judge_actions(t, vd, j, parent, trio, perm)
    for j, (label, src, ref_src, order) in enumerate(textual_docs()):
        if j % nshards == shard:
            judge_textual(t, vd, label, src, ref_src, order)
    if COMPONENT_DIR[0] is not None:
        import shutil
        shutil.rmtree(COMPONENT_DIR[0], ignore_errors=True)     # pool workers do not run atexit handlers
        COMPONENT_DIR[0] = None
    return t


CONTAINERS = [
    ("widget", "QWidget {{\n    id: root\n{kids}}}\n", ["QLabel {{ id: {n} }}", "QWidget {{ id: {n}; QLabel {{ id: {n}In }} }}", "QAction {{ id: {n} }}"]),
    ("vbox", "QWidget {{\n    id: root\n    QVBoxLayout {{\n    id: lay\n{kids}    }}\n}}\n",
     ["QLabel {{ id: {n} }}", "QHBoxLayout {{ id: {n}; QLabel {{ id: {n}In }} }}", "QSpacerItem {{ id: {n} }}"]),
    ("menu", "QWidget {{\n    id: root\n    QMenu {{\n    id: menu\n{kids}    }}\n}}\n",
     ["QAction {{ id: {n} }}", "QMenu {{ id: {n}; QAction {{ id: {n}In }} }}", "QAction {{ id: {n}; separator: true }}"]),
    ("tabs", "QWidget {{\n    id: root\n    QTabWidget {{\n    id: tabs\n{kids}    }}\n}}\n",
     ["QWidget {{ id: {n} }}", "QWidget {{ id: {n}; QLabel {{ id: {n}In }} }}", "QLabel {{ id: {n} }}"]),
]
ANNOTATIONS = ['@Deprecated {}', '@Deprecated { reason: "x" }', '@Qt.Note { text: "n" }']


def textual_docs():
    """-> (label, source, reference source or None, expected order of ids or None).
    (1) A QML annotation before a child object has no meaning for the form: the document is rejected, or its form
        is the one of the document without the annotation (the object and its subtree are there, in place).
    (2) Children of a form / grid layout placed explicitly in cells that do not ascend: the items keep source order."""
    head = "import qmluic.QtWidgets\n"
    for cname, frame, kinds in CONTAINERS:
        for pos in range(3):
            for ai, ann in enumerate(ANNOTATIONS):
                for ki, kind in enumerate(kinds):
                    names = ["first", "second", "third"]
                    plain, annotated = [], []
                    for i, n in enumerate(names):
                        line = "        " + (kind if i == pos else kinds[0]).format(n=n) + "\n"
                        plain.append(line)
                        annotated.append(("        " + ann + "\n" if i == pos else "") + line)
                    yield (f"annotation/{cname}/{pos}/{ai}/{ki}", head + frame.format(kids="".join(annotated)), head + frame.format(kids="".join(plain)), None)
    for lay in ("QFormLayout", "QGridLayout"):
        for rows in itertools.permutations(range(3)):
            for cols in ((None, None, None), (0, 0, 0), (1, 0, 1), (0, 1, 0)):
                kids = ""
                for i in range(3):
                    col = f"; QLayout.column: {cols[i]}" if cols[i] is not None else ""
                    kid = "QLabel" if i != 1 else "QDialogButtonBox"
                    kids += f"        {kid} {{ id: c{i}; QLayout.row: {rows[i]}{col} }}\n"
                yield (f"explicit-cells/{lay}/{''.join(map(str, rows))}/{cols}", head + f"QWidget {{\n    id: root\n    {lay} {{\n    id: lay\n{kids}    }}\n}}\n",
                       None, ["c0", "c1", "c2"])


def judge_textual(t, vd, label, src, ref_src, order):
    r = vd.job({"id": label, "source": src, "modes": ["generate"]})
    if "modes" not in r or r["modes"]["generate"].get("status") == "panic":
        t.lost.append({"id": label})
        return
    g = r["modes"]["generate"]
    t.inc("textual_documents")
    t.distinct.add(("textual", label))
    case = {"id": label, "source": src, "textual": [label, src, ref_src, order]}
    if not vc.accepted(g, r.get("has_syntax_error")):
        if order is not None:
            t.violation("rejected-a-valid-layout:" + label.split("/")[0], dict(case, diagnostics=g.get("diagnostics")))
        else:
            t.inc("annotated_documents_rejected")
        return
    if ref_src is not None:
        ref = vd.job({"id": label + "/ref", "source": ref_src, "modes": ["generate"]})["modes"]["generate"]
        if g["ui"] != ref["ui"]:
            t.violation("tree:annotated-object-changes-the-form", dict(case, ui=g["ui"][:1500]))
        return
    e = uiread.find_object(uiread.parse(g["ui"]), "lay")
    got = [it.children[0].attrs.get("name") for it in e.findall("item") if it.children]
    t.inc("trees")
    if got != order:
        t.violation("order:explicitly-placed-children-not-in-source-order", dict(case, got=got))


def _tolist(shape):
    return [shape[0], [_tolist(k) for k in shape[1]]]


def _fromlist(l):
    return (l[0], [_fromlist(k) for k in l[1]])


def judge_shape(t, vd, i, shape):
    if True:
        root = build_tree(shape)
        src = qml.render(root, oneline=True)
        if uses_component(shape):
            import os
            path = os.path.join(component_dir(), "Main.qml")
            with open(path, "w") as f:
                f.write(src)
            r = vd.job({"id": i, "path": path, "modes": ["generate"]})
        else:
            r = vd.job({"id": i, "source": src, "modes": ["generate"]})
        x = judge_tree(t, f"tree/{i}", shape, src, r)
        if x is None:
            return
        g, case = x
        case["shape_json"] = _tolist(shape)
        t.inc("trees")
        try:
            exp = expected(root, None)
            rej = None
        except Reject as e:
            exp, rej = None, str(e)
        acc = vc.accepted(g, r.get("has_syntax_error"))
        t.distinct.add(shape_str(shape))
        if rej is not None:
            t.inc("expected_reject")
            if acc:
                t.violation("accepted-a-forbidden-tree:" + rej.replace(" ", "-"), dict(case, rule=rej))
            return
        t.inc("expected_accept")
        if not acc:
            t.violation("rejected-an-allowed-tree", dict(case, diagnostics=g.get("diagnostics")))
            return
        try:
            got = from_xml(uiread.parse(g["ui"]).find("widget"))
        except Exception as e:  # noqa
            t.violation("ui-not-readable", dict(case, error=repr(e)))
            return
        t.inc("objects_compared", sum(1 for _ in root.walk()))
        if got != exp:
            d = first_difference(exp, got)
            what = "children-order-or-nesting"
            if "addaction" in d:
                what = "addaction-list"
            elif "class expected" in d:
                what = "class-attribute"
            elif "tag expected" in d:
                what = "element-kind"
            t.violation("tree-mismatch:" + what, dict(case, difference=d, ui=g["ui"]))
        if i % 3000 == 0:
            t.sample({"shape": shape_str(shape), "source": src})


def judge_actions(t, vd, j, parent, trio, perm):
    if True:
        root, p, exp_adds = build_action_doc(parent, trio, perm)
        src = qml.render(root, oneline=True)
        r = vd.job({"id": j, "source": src, "modes": ["generate"]})
        x = judge_tree(t, f"actions/{j}", None, src, r)
        if x is None:
            return
        g, case = x
        case["actions_json"] = [parent, list(trio), list(perm)]
        t.inc("action_list_documents")
        t.distinct.add(("actions", parent, trio, perm))
        if not vc.accepted(g, r.get("has_syntax_error")):
            t.violation("rejected-an-explicit-actions-list", dict(case, diagnostics=g.get("diagnostics")))
            return
        e = uiread.find_object(uiread.parse(g["ui"]), p.id)
        adds = tuple(c.attrs.get("name") for c in e.findall("addaction"))
        if adds != exp_adds:
            t.violation("explicit-actions-list-not-used-exactly",
                        dict(case, expected=list(exp_adds), got=list(adds)))


def main(tier, t0):
    vc.ensure_vdrive()
    tally = vc.merge_tallies(vc.run_sharded(shard_work, {"tier": tier}))
    c = tally.counts
    cov = {
        "evaluations": c.get("trees", 0) + c.get("action_list_documents", 0),
        "distinct_nontrivial": len(tally.distinct),
        "rule": "distinct tree shapes (kind sequence per level) + distinct (parent, action trio, explicit "
                "list) triples; every object carries an id so that each element is identified",
        "exhaustive": True,
        "bound_completed": ("depth 2 x fan-out 3 over 12 kinds; depth 3 x fan-out 2 over 5 kinds (root QWidget)"
                            if tier == "quick" else
                            "depth 2 x fan-out 3 over 12 kinds; depth 3 x fan-out 2 over 7 kinds (3 roots); "
                            "depth 4 chains over 7 kinds"),
        "expected_accept": c.get("expected_accept", 0), "expected_reject": c.get("expected_reject", 0),
        "objects_compared": c.get("objects_compared", 0),
        "action_list_documents": c.get("action_list_documents", 0),
    }
    assumptions = [
        "element kind by class ancestry; <item> wrapper under layouts; siblings in source order; "
        "addaction = declaration order of action-like children (action, separator, menu) or exactly "
        "the explicit list; separators produce no element",
        "rejected: non-widget root, spacer outside a layout, action under a layout, children of "
        "actions/spacers",
    ]
    return vc.finish("C11", tier, LEVEL, tally, cov, assumptions, t0)


def replay(path):
    vc.ensure_vdrive()
    r = json.load(open(path))
    case = r["case"]
    vd = vc.VDrive()
    t = vc.Tally()
    if "shape_json" in case:
        judge_shape(t, vd, 0, _fromlist(case["shape_json"]))
    elif "textual" in case:
        judge_textual(t, vd, *case["textual"])
    elif "actions_json" in case:
        parent, trio, perm = case["actions_json"]
        judge_actions(t, vd, 0, parent, tuple(trio), tuple(perm))
    vd.close()
    if t.violations:
        print(f"VIOLATION property=C11 replay={path}")
        for sig, c in t.violations:
            print("  ", sig, "-", c.get("difference") or c.get("rule") or "")
        return 1
    print("replay: holds now")
    return 0
