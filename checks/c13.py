"""C13  Signal callbacks are wired to the right signal and do what the source says.

Executed on the real generated code against the Qt API model:
  H1  every void-context statement skeleton with <= k nodes as an `onFired` handler whose leaves are
      side effects on another object; all states of the conditions; the trace produced by emitting
      the signal must equal the reference trace (same calls, same order, same values, nothing else);
  H2  handler forms x parameter lists x argument tuples on firedWith(int, QString) and the other
      signals (expression, block, function with 0..n typed parameters, arrow function; property
      writes, slot calls, console.* calls, early return);
  H3  wiring: a handler on each signal of an object in turn; emitting every *other* signal must
      produce no trace, the right one exactly one run of the handler; exactly one connection exists;
      default-argument pairs are connected through the overload with most arguments;
  H4  ambiguous overloads, non-signals, unknown names and incompatible parameters are rejected.
"""
import itertools
import re
import json

import harness
import progs
import qtmock
import refeval as rv
import uiread
import vcommon as vc
from checks import c01

LEVEL = "exploration"
HEAD = c01.DOC_HEAD


def trace_of(calls):
    """Reference trace -> the strings the model records."""
    out = []
    for name, arg in calls:
        if name == "done":
            out.append(f"a.done({arg})")
        elif name == "say":
            out.append("a.say(" + rv.show_value("S", arg) + ")")
        else:
            out.append(name if arg is None else f"{name}({arg})")
    return out


# --------------------------------------------------------------------------- H1 skeletons

def h1_programs(tier):
    kmax = 4 if tier == "thorough" else 3
    for k, sk in enumerate(progs.skeletons(kmax)):
        yield (k, sk)


def trace_driver(keys, states, emits):
    """Driver: per state fresh objects, apply state, setup(), start tracing, perform `emits`."""
    kinds = [rv.PROP_KIND[k.split(".")[1]] for k in keys]
    fields = "; ".join(f"{c01.CTYPE[kd]} k{i}" for i, kd in enumerate(kinds)) or "int dummy"
    rows = ",\n        ".join("{" + (", ".join(c01.table_value(kd, st[k]) for k, kd in zip(keys, kinds)) or "0") + "}" for st in states)
    sets = " ".join(c01.apply_field(k, kd, f"k{i}") for i, (k, kd) in enumerate(zip(keys, kinds)))
    lt = ", ".join(rv.cxx_value("L", v) for v in rv.DOMAINS["L"])
    blocks = []
    for ei, (label, code) in enumerate(emits):
        blocks.append(f"""
        {{ auto body = [&]() {{
            @SETUP@
            VObj *objs[] = {{nullptr, a, b0, c0}}; (void)objs;
            {sets}
            UiSupport::@PID@ sup(root, ui); sup.setup();
            long conns_on_t = long(static_cast<QObject *>(t)->connectionCount());
            verif::trace().clear(); verif::tracing() = true;
            {code}
            verif::tracing() = false;
            std::string joined;
            for (auto &x : verif::trace()) joined += x + ";";
            emit("@PID@", sid + ":{label}", std::to_string(conns_on_t) + "#" + joined);
          }};
          VERIF_GUARD("@PID@", sid + ":{label}!", body()); verif::tracing() = false; }}""")
    return f"""    struct St {{ {fields}; }};
    static const St S[] = {{
        {rows}
    }};
    static const QStringList LT[] = {{ {lt} }};
    for (size_t si = 0; si < sizeof(S) / sizeof(S[0]); ++si) {{
        const St &s = S[si]; (void)s;
        std::string sid = std::to_string(si);
        {''.join(blocks)}
    }}"""


def prepare_h1(vd, k, sk, t):
    r = progs.Renderer("void")
    text, ast = r.program(sk)
    src = HEAD + f"    VObj {{\n        id: t\n        onFired: {text}\n    }}\n}}\n"
    pid = f"H{k}"
    res = vd.job({"id": k, "source": src, "modes": ["generate"], "type_name": pid})
    if res.get("crashed") or res.get("timeout") or "modes" not in res or res["modes"]["generate"].get("status") == "panic":
        t.lost.append({"id": k})
        return None
    g = res["modes"]["generate"]
    if not vc.accepted(g, res.get("has_syntax_error")):
        t.inc("handlers_rejected")
        return None
    keys = list(r.reads)
    states = [st for _k, st in c01.states_for(keys)] if keys else [{}]
    return harness.Program(pid, g["ui"], g["header"], trace_driver(keys, states, [("fired", "t->fired();")]),
                           {"k": k, "source": src, "ast": ast, "keys": keys, "states": states, "skeleton": repr(sk)})


def judge_h1(t, p, res):
    m = p.meta
    if res["compile_error"]:
        # an accepted program whose generated code does not compile computes / does nothing at all
        t.inc("programs_not_compiling")
        t.violation("generated-code-does-not-compile", {"id": m["k"], "source": m.get("source"), "compile_error": res["compile_error"][-700:]})
        return
    if res["crash"]:
        what = "hang:handler-does-not-terminate" if res["crash"].startswith("timeout") else "crash:handler-crashed"
        t.violation(what, {"source": m["source"], "crash": res["crash"][-500:]})
        return
    got = dict(res["lines"])
    outcomes = set()
    for si, st in enumerate(m["states"]):
        tr = []
        progs.ref_eval(m["ast"], st, tr)
        want = "1#" + "".join(x + ";" for x in trace_of(tr))
        have = got.get(f"{si}:fired")
        t.inc("evaluations")
        outcomes.add(want)
        if f"{si}:fired!" in got:
            t.violation("exception:" + got[f"{si}:fired!"].split(":")[0], {"source": m["source"], "state": st, "what": got[f"{si}:fired!"]})
        elif have != want:
            feat = "connection-count" if have is not None and have.split("#")[0] != "1" else "trace"
            t.violation(f"handler:{feat}-differs-from-source", {"source": m["source"], "skeleton": m["skeleton"], "state": st,
                                                                "expected": want, "observed": have})
    t.inc("programs")
    if len(outcomes) > 1:
        t.inc("programs_with_two_or_more_outcomes")
    t.distinct.add(m["source"])


# --------------------------------------------------------------------------- H2 forms and parameters

def h2_cases():
    """(label, signal, handler text, python fn(args, st) -> trace strings, emit code per argument tuple)"""
    ints = [-1, 0, 3]
    strs = ["", "q"]
    argsets = list(itertools.product(ints, strs))

    def emits():
        return [(f"a{i}", f"t->firedWith({x}, {harness.cxx_str(y)});", (x, y)) for i, (x, y) in enumerate(argsets)]
    S = lambda v: rv.show_value("S", v)   # noqa
    forms = [
        ("expr", "a.done(1)", lambda a, st: ["a.done(1)"]),
        ("block", "{ a.done(1); a.say(\"x\") }", lambda a, st: ["a.done(1)", f"a.say({S('x')})"]),
        ("function0", "function() { a.done(2) }", lambda a, st: ["a.done(2)"]),
        ("function1", "function(x: int) { a.done(x) }", lambda a, st: [f"a.done({a[0]})"]),
        ("function2", "function(x: int, y: QString) { a.say(y); a.done(x) }", lambda a, st: [f"a.say({S(a[1])})", f"a.done({a[0]})"]),
        # parameters that are declared but not used: every later one still binds to its own position
        ("first-unused", "function(x: int, y: QString) { a.say(y) }", lambda a, st: [f"a.say({S(a[1])})"]),
        ("second-unused", "function(x: int, y: QString) { a.done(x) }", lambda a, st: [f"a.done({a[0]})"]),
        ("both-unused", "function(x: int, y: QString) { a.done(5) }", lambda a, st: ["a.done(5)"]),
        ("first-used-in-one-branch-only", "function(x: int, y: QString) { if (y.isEmpty()) { a.done(x) } else { a.say(y) } }",
         lambda a, st: [f"a.done({a[0]})"] if not a[1] else [f"a.say({S(a[1])})"]),
        ("first-shadowed-second-used", "function(x: int, y: QString) { let x = 9; a.done(x); a.say(y) }",
         lambda a, st: ["a.done(9)", f"a.say({S(a[1])})"]),
        ("function2-swapped-names", "function(y: int, x: QString) { a.done(y); a.say(x) }", lambda a, st: [f"a.done({a[0]})", f"a.say({S(a[1])})"]),
        ("arrow1", "(x: int) => a.done(x + 1)", lambda a, st: [f"a.done({a[0] + 1})"]),
        ("arrow-block", "(x: int, y: QString) => { a.done(x); a.say(y + \"!\") }", lambda a, st: [f"a.done({a[0]})", f"a.say({S(a[1] + '!')})"]),
        ("param-in-condition", "function(x: int, y: QString) { if (x > 0 && !y.isEmpty()) { a.done(x) } else { a.say(y) } }",
         lambda a, st: [f"a.done({a[0]})"] if a[0] > 0 and a[1] else [f"a.say({S(a[1])})"]),
        ("early-return", "function(x: int) { if (x == 0) return; a.done(x); if (x < 0) { return } a.done(9) }",
         lambda a, st: [] if a[0] == 0 else ([f"a.done({a[0]})"] if a[0] < 0 else [f"a.done({a[0]})", "a.done(9)"])),
        ("property-write", "function(x: int, y: QString) { a.i = x; a.s = y; a.i = x }",
         lambda a, st: [f"a.setI({a[0]})", f"a.setS({S(a[1])})", f"a.setI({a[0]})"]),
        ("console", "function(x: int, y: QString) { console.log(y, x); console.info(x > 0); console.warn(\"w\"); console.error(x, x); console.debug(y) }",
         lambda a, st: [f"qDebug: {a[1]} {a[0]}", f"qInfo: {'true' if a[0] > 0 else 'false'}", "qWarning: w", f"qCritical: {a[0]} {a[0]}", f"qDebug: {a[1]}"]),
        ("switch-on-param", "function(x: int) { switch (x) { case 0: a.done(10); case 3: a.done(13); break; default: a.done(99) } }",
         lambda a, st: {0: ["a.done(10)", "a.done(13)"], 3: ["a.done(13)"]}.get(a[0], ["a.done(99)"])),
        ("param-shadowed-by-let", "function(x: int) { { let x = 7; a.done(x) } a.done(x) }", lambda a, st: ["a.done(7)", f"a.done({a[0]})"]),
        ("ternary-call", "function(x: int) { x > 0 ? a.done(1) : a.done(2) }", lambda a, st: ["a.done(1)"] if a[0] > 0 else ["a.done(2)"]),
        ("local-and-arith", "function(x: int, y: QString) { let z = x * 2 + 1; const w = y + y; a.done(z); a.say(w) }",
         lambda a, st: [f"a.done({a[0] * 2 + 1})", f"a.say({S(a[1] + a[1])})"]),
        ("implicit-this-method", "function(x: int) { done(x); this.say(\"me\") }", lambda a, st: [f"t.done({a[0]})", f"t.say({S('me')})"]),
        ("tr", "function() { a.say(qsTr(\"hello\")) }", lambda a, st: ["translate(@PID@)", f"a.say({S('hello')})"]),
    ]
    for label, text, fn in forms:
        yield (label, "onFiredWith", text, fn, emits())


def prepare_h2(vd, k, case, t):
    label, signal, text, fn, emits = case
    src = HEAD + f"    VObj {{\n        id: t\n        {signal}: {text}\n    }}\n}}\n"
    pid = f"F{k}"
    res = vd.job({"id": k, "source": src, "modes": ["generate"], "type_name": pid})
    g = res["modes"]["generate"]
    if not vc.accepted(g, res.get("has_syntax_error")):
        t.violation("rejected-a-documented-handler-form:" + label, {"source": src, "diagnostics": g.get("diagnostics")})
        return None
    return harness.Program(pid, g["ui"], g["header"], trace_driver([], [{}], [(l, c) for l, c, _a in emits]),
                           {"label": label, "source": src, "fn": fn, "emits": emits})


def judge_h2(t, p, res):
    m = p.meta
    if res["compile_error"]:
        # an accepted program whose generated code does not compile computes / does nothing at all
        t.inc("programs_not_compiling")
        t.violation("generated-code-does-not-compile", {"id": m["label"], "source": m.get("source"), "compile_error": res["compile_error"][-700:]})
        return
    if res["crash"]:
        t.violation("crash:handler-crashed", {"source": m["source"], "crash": res["crash"][-500:]})
        return
    got = dict(res["lines"])
    for l, _c, args in m["emits"]:
        want = "1#" + "".join(x.replace("@PID@", p.pid) + ";" for x in m["fn"](args, {}))
        have = got.get(f"0:{l}")
        t.inc("evaluations")
        t.distinct.add((m["label"], args))
        if have != want:
            t.violation(f"handler:parameters-or-effects:{m['label']}", {"source": m["source"], "arguments": list(args),
                                                                        "expected": want, "observed": have})
    t.inc("programs")


# --------------------------------------------------------------------------- H3 wiring

SIGNALS = [
    # (handler name, emit code for this signal, note)
    ("onFired", "t->fired();"), ("onFiredWith", "t->firedWith(1, QString());"), ("onFiredDefault", "t->firedDefault(5);"),
    ("onFiredObj", "t->firedObj(a);"), ("onFiredBool", "t->firedBool(true);"), ("onFiredMode", "t->firedMode(VObj::M1);"),
    ("onIChanged", "t->setI(t->i() + 1);"), ("onJChanged", "t->setJ(t->j() + 1);"), ("onSChanged", "t->setS(t->s() + QString(u\"x\"));"),
    ("onOChanged", "t->setO(t->o() + 1);"), ("onWindowTitleChanged", "t->setWindowTitle(QString(u\"w\"));"),
    ("onObjectNameChanged", "t->setObjectName(QString(u\"n\"));"),
]


def h3_cases():
    for hi, (hname, _e) in enumerate(SIGNALS):
        src = HEAD + f"    VObj {{\n        id: t\n        {hname}: a.done({hi + 100})\n    }}\n    VObj {{ id: t2; onFired: a.done(999) }}\n}}\n"
        emits = [(f"e{ei}", code) for ei, (_n, code) in enumerate(SIGNALS)]
        emits.append(("other-object", "t2->fired();"))
        emits.append(("source-object", "a->fired(); a->setI(a->i() + 1);"))
        yield (hi, hname, src, emits)
    # default-argument pair: the handler must receive the argument (overload with most arguments)
    yield (100, "onFiredDefault", HEAD + "    VObj {\n        id: t\n        onFiredDefault: function(x: int) { a.done(x) }\n    }\n    VObj { id: t2 }\n}\n",
           [("e2", "t->firedDefault(5);"), ("e2b", "t->firedDefault(6);")])
    yield (103, "onChain3", HEAD + "    VObj {\n        id: t\n        onChain3: function(x: int, y: QString) { a.done(x); a.say(y) }\n    }\n    VObj { id: t2 }\n}\n",
           [("chain3", "t->chain3(8, QString(u\"z\"));")])
    yield (101, "onOChanged", HEAD + "    VObj {\n        id: t\n        onOChanged: function(x: int) { a.done(x) }\n    }\n    VObj { id: t2 }\n}\n",
           [("e9", "t->setO(4);")])
    # two objects whose <Object><Signal> names coincide: each handler still runs for its own signal only
    yield (104, "onEditTextChanged", "import qmluic.QtWidgets\nQWidget {\n    id: root\n    VObj { id: a }\n    VObj { id: b0 }\n    VObj { id: c0 }\n"
           "    QComboBox { id: t; onEditTextChanged: a.done(1) }\n    QLineEdit { id: tEdit; onTextChanged: a.done(2) }\n}\n",
           [("combo", "t->editTextChanged(QString());"), ("edit", "tEdit->textChanged(QString());")])
    yield (105, "onValueChanged", "import qmluic.QtWidgets\nQWidget {\n    id: root\n    VObj { id: a }\n    VObj { id: b0 }\n    VObj { id: c0 }\n"
           "    QSlider { id: t; onValueChanged: a.done(1) }\n    QAction { id: tValue; onChanged: a.done(2) }\n}\n",
           [("spin", "t->valueChanged(1);"), ("action", "tValue->changed();")])
    yield (106, "onFiredWith", HEAD + "    VObj { id: t; onFiredWith: a.done(1) }\n    VObj { id: tFired; onIChanged: a.done(2) }\n"
           "    VObj { id: tFiredWith; onFired: a.done(3) }\n}\n",
           [("t", "t->firedWith(1, QString());"), ("tFired", "tFired->setI(tFired->i() + 1);"), ("tFiredWith", "tFiredWith->fired();")])
    # real Qt classes: inherited signal with default argument, notify signal
    yield (102, "onClicked", "import qmluic.QtWidgets\nQWidget {\n    id: root\n    VObj { id: a }\n    VObj { id: b0 }\n    VObj { id: c0 }\n"
           "    QPushButton {\n        id: t\n        onClicked: function(on: bool) { a.sayBool(on) }\n        onToggled: a.done(7)\n    }\n}\n",
           [("clicked", "t->clicked(true);"), ("toggled", "t->toggled(false);"), ("pressed", "t->pressed();")])


def prepare_h3(vd, case, t):
    hi, hname, src, emits = case
    pid = f"W{hi}"
    res = vd.job({"id": hi, "source": src, "modes": ["generate"], "type_name": pid})
    g = res["modes"]["generate"]
    if not vc.accepted(g, res.get("has_syntax_error")):
        t.violation("rejected-a-handler-on-a-plain-signal:" + hname, {"source": src, "diagnostics": g.get("diagnostics")})
        return None
    return harness.Program(pid, g["ui"], g["header"], trace_driver([], [{}], emits),
                           {"hi": hi, "handler": hname, "source": src, "emits": emits})


def judge_h3(t, p, res):
    m = p.meta
    if res["compile_error"]:
        # an accepted program whose generated code does not compile computes / does nothing at all
        t.inc("programs_not_compiling")
        t.violation("generated-code-does-not-compile", {"id": m["handler"], "source": m.get("source"), "compile_error": res["compile_error"][-700:]})
        return
    if res["crash"]:
        t.violation("crash:handler-crashed", {"source": m["source"], "crash": res["crash"][-500:]})
        return
    got = dict(res["lines"])
    hi = m["hi"]
    for label, code in m["emits"]:
        have = got.get(f"0:{label}")
        t.inc("evaluations")
        t.distinct.add((m["handler"], label))
        if hi < 100:
            nconn = "1"
            # expected: the handler's effect iff this emission is the handler's own signal; setters note themselves
            own = label == f"e{hi}"
            body = have.split("#", 1)[1] if have else ""
            effects = [x for x in body.split(";") if x.startswith("a.done(")]
            want_effects = [f"a.done({hi + 100})"] if own else []
            if label == "other-object":
                want_effects = ["a.done(999)"]
            if have is None or have.split("#")[0] != nconn:
                t.violation("wiring:connection-count", {"source": m["source"], "observed": have})
            elif effects != want_effects:
                what = "handler-did-not-run" if own and not effects else ("handler-ran-more-than-once" if own else "handler-ran-on-another-signal")
                t.violation(f"wiring:{what}", {"source": m["source"], "emitted": code, "expected": want_effects, "observed": have})
        else:
            want = {"e2": "1#a.done(5);", "e2b": "1#a.done(6);", "e9": "1#t.setO(4);a.done(4);",
                    "chain3": "1#a.done(8);a.say(s:007a);", "clicked": "2#a.sayBool(true);", "toggled": "2#a.done(7);", "pressed": "2#",
                    "combo": "1#a.done(1);", "edit": "1#a.done(2);", "spin": "1#a.done(1);", "action": "1#a.done(2);",
                    "t": "1#a.done(1);", "tFired": "1#tFired.setI(1);a.done(2);", "tFiredWith": "1#a.done(3);"}[label]
            if have != want:
                t.violation(f"wiring:argument-or-overload:{m['handler']}", {"source": m["source"], "emitted": code,
                                                                          "expected": want, "observed": have})
    t.inc("programs")


REJECTS = [
    ("ambiguous-overload", "onAmb: a.act()"), ("ambiguous-overload-with-parameter", "onAmb: function(x: int) {}"),
    ("default-argument-entry-plus-two-real-overloads", "onTri: a.act()"),
    ("default-argument-entry-plus-two-real-overloads-with-parameter", "onTri: function(x: int) {}"),
    ("slot-with-default-argument-variants", "onOpt: a.act()"), ("slot-with-default-argument-variants-2", "onOpt2: a.act()"),
    ("slot-with-default-argument-variants-and-parameter", "onOpt: function(x: int) {}"),
    ("invokable-with-default-argument-variant", "onCalc: a.act()"),
    ("slot-not-signal", "onDone: a.act()"), ("method-not-signal", "onTwice: a.act()"), ("unknown-signal", "onNoSuchSignal: a.act()"),
    ("property-not-signal", "onI: a.act()"), ("too-many-parameters", "onFired: function(x: int) {}"),
    ("too-many-parameters-2", "onFiredWith: function(x: int, y: QString, z: int) {}"),
    ("incompatible-parameter", "onFiredWith: function(x: QString) {}"), ("convertible-parameter-uint", "onFiredWith: function(x: uint) {}"),
    ("convertible-parameter-double", "onFiredWith: function(x: double) {}"), ("convertible-parameter-int-for-bool", "onFiredBool: function(x: int) {}"),
    ("convertible-parameter-int-for-enum", "onFiredMode: function(x: int) {}"), ("downcast-parameter", "onFiredObj: function(o: VSub) {}"),
    ("missing-annotation", "onFiredWith: function(x) {}"), ("handler-is-a-map", "onFired { x: 1 }"),
    ("handler-on-grouped-value", "font.onFamilyChanged: a.act()"),
]


# handlers inside an object-valued property group: rejected today; if a version accepts them, the
# connection has to be there
REAL_NON_SIGNALS = [
    ("QPushButton", "onAnimateClick: a.act()"), ("QPushButton", "onClick: a.act()"), ("QStatusBar", "onShowMessage: a.act()"),
    ("QTreeView", "onSortByColumn: a.act()"), ("QWidget", "onGrab: a.act()"), ("QWidget", "onShow: a.act()"),
    ("QWidget", "onSetFocus: a.act()"), ("QLabel", "onSetNum: a.act()"), ("QWidget", "onRepaint: a.act()"),
    ("QWidget", "onUpdate: a.act()"), ("QLineEdit", "onSetText: a.act()"), ("QComboBox", "onSetCurrentIndex: a.act()"),
]
# signals of real Qt classes that have several real overloads (some with argument types qmluic does not know):
# a handler without parameters cannot pick one
REAL_AMBIGUOUS = [("QTextBrowser", "onHighlighted: a.act()"), ("QComboBox", "onActivated: a.act()"), ("QComboBox", "onCurrentIndexChanged: a.act()"),
                  ("QSpinBox", "onValueChanged: function(x: QString) {}"), ("QButtonGroup", "onButtonClicked: a.act()"),
                  ("QTabWidget", "onNoSuch: a.act()")]
GROUP_HANDLERS = [
    ("table-header-dotted", "QTableView", "horizontalHeader.onSectionClicked: a.act()", "sectionClicked"),
    ("table-header-braces", "QTableView", "verticalHeader { onSectionClicked: a.act() }", "sectionClicked"),
    ("tree-header-dotted", "QTreeView", "header.onSectionClicked: a.act()", "sectionClicked"),
    ("tree-header-with-parameter", "QTreeView", "header.onSectionClicked: function(i: int) { a.done(i) }", "sectionClicked"),
]


# --------------------------------------------------------------------------- H5 gadget-typed parameters

def h5_cases():
    """(label, class, handler binding, emit code, checker(trace list) -> problem or None)"""
    def font_call(tr, obj, **want):
        if len(tr) != 1 or not tr[0].startswith(f"{obj}.setFont({{"):
            return f"expected exactly one {obj}.setFont(...)"
        fields = dict(f.split("=", 1) for f in tr[0][len(obj) + 10:-2].split(",") if "=" in f)
        for k, v in want.items():
            if fields.get(k) != v:
                return f"{k}={fields.get(k)} (expected {v})"
        return None
    emit_font = "{ QFont ff; ff.setPointSize(5); t->currentFontChanged(ff); }"
    yield ("font-passed-on", "QFontComboBox", "onCurrentFontChanged: function(f: QFont) { a.font = f }", emit_font,
           lambda tr: font_call(tr, "a", pointSize="5", bold="false"))
    yield ("font-member-written", "QFontComboBox", "onCurrentFontChanged: function(f: QFont) { f.bold = true; a.font = f }", emit_font,
           lambda tr: font_call(tr, "a", pointSize="5", bold="true"))
    yield ("font-two-members-written", "QFontComboBox",
           "onCurrentFontChanged: function(f: QFont) { f.bold = true; f.pointSize = f.pointSize + 1; a.font = f }", emit_font,
           lambda tr: font_call(tr, "a", pointSize="6", bold="true"))
    yield ("font-parameter-reassigned", "QFontComboBox",
           "onCurrentFontChanged: function(f: QFont) { let g = f; f = b0.font; a.font = g; }", emit_font,
           lambda tr: font_call(tr, "a", pointSize="5", bold="false"))
    yield ("font-written-under-condition", "QFontComboBox",
           "onCurrentFontChanged: function(f: QFont) { if (f.pointSize > 3) { f.italic = true } a.font = f }", emit_font,
           lambda tr: font_call(tr, "a", pointSize="5", italic="true"))
    yield ("font-unused-parameter", "QFontComboBox", "onCurrentFontChanged: function(f: QFont) { a.done(1) }", emit_font,
           lambda tr: None if tr == ["a.done(1)"] else "expected a.done(1)")
    yield ("size-passed-on", "QToolBar", "onIconSizeChanged: function(z: QSize) { a.minimumSize = z }",
           "{ QSize zz; zz.m_width = 3; zz.m_height = 4; t->iconSizeChanged(zz); }",
           lambda tr: None if tr == ["a.setMinimumSize({width=3,height=4})"] else "expected a.setMinimumSize({width=3,height=4})")


FACILITIES = [
    ("log", 'console.log("x")', ["qDebug("]), ("debug", 'console.debug("x")', ["qDebug("]), ("info", 'console.info("x")', ["qInfo("]),
    ("warn", 'console.warn("x")', ["qWarning("]), ("error", 'console.error("x")', ["qCritical("]),
    ("max", "a.done(Math.max(a.i, 1))", ["std::max"]), ("min", "a.done(Math.min(a.i, 1))", ["std::min"]),
    ("fmod", "a.sayDouble(a.d % 2.0)", ["std::fmod("]),
]
FACILITY_SHAPES = [
    ("straight", "{{ {P} }}"), ("early-return", "{{ if (a.b) return; {P} }}"), ("then-branch", "{{ if (a.b) {{ {P} }} }}"),
    ("else-branch", "{{ if (a.b) {{ a.act() }} else {{ {P} }} }}"), ("else-after-return", "{{ if (a.b) {{ return }} else {{ {P} }} }}"),
    ("switch-default", "{{ switch (a.i) {{ case 1: a.act(); break; default: {P} }} }}"),
    ("after-switch-return", "{{ switch (a.i) {{ case 1: return; }} {P} }}"),
    ("nested", "{{ if (a.b) {{ if (a.c) return; {P} }} }}"), ("function", "function() {{ if (a.b) return; {P} }}"),
]


def facility_docs():
    """A handler whose only use of a facility that needs a system header sits in every position of a body with
    branches; and two facilities in two different branches.  One document, one use: nothing else asks for the header."""
    for sname, shape in FACILITY_SHAPES:
        for fname, stmt, marks in FACILITIES:
            yield (f"{sname}/{fname}", HEAD + f"    VObj {{\n        id: t\n        onFired: {shape.format(P=stmt)}\n    }}\n}}\n", marks)
    for (f1, s1, m1), (f2, s2, m2) in itertools.permutations([FACILITIES[3], FACILITIES[5], FACILITIES[7]], 2):
        yield (f"two-branches/{f1}+{f2}", HEAD + f"    VObj {{\n        id: t\n        onFired: {{ if (a.b) {{ {s1}; return }} {s2} }}\n    }}\n}}\n", m1 + m2)
    # the same in a property binding (C16 owns bindings; one representative keeps the two in step)
    yield ("binding/max", HEAD + "    VObj {\n        id: t\n        ri: { if (a.b) return 0; return Math.max(a.i, 1) }\n    }\n}\n", ["std::max"])


def prepare_h5(vd, k, case, t):
    label, cls, binding, emit, chk = case
    src = HEAD + f"    {cls} {{\n        id: t\n        {binding}\n    }}\n}}\n"
    pid = f"G{k}"
    res = vd.job({"id": k, "source": src, "modes": ["generate"], "type_name": pid})
    g = res["modes"]["generate"]
    if res.get("has_syntax_error"):
        raise vc.MachineryError("H5 document does not parse:\n" + src)
    if not vc.accepted(g, False):
        t.inc("h5_rejected")        # writing to a parameter may legitimately be unsupported
        return None
    return harness.Program(pid, g["ui"], g["header"], trace_driver([], [{}], [("e", emit)]),
                           {"label": label, "source": src, "chk": chk})


def judge_h5(t, p, res):
    m = p.meta
    if res["compile_error"]:
        t.inc("programs_not_compiling")
        t.violation("generated-code-does-not-compile", {"id": m["label"], "source": m["source"], "compile_error": res["compile_error"][-700:]})
        return
    if res["crash"]:
        t.violation("crash:handler-crashed", {"source": m["source"], "crash": res["crash"][-500:]})
        return
    got = dict(res["lines"])
    have = got.get("0:e")
    t.inc("evaluations")
    t.inc("programs")
    t.distinct.add(("h5", m["label"]))
    if have is None or not have.startswith("1#"):
        t.violation("handler:connection-count-differs-from-source", {"source": m["source"], "observed": have, "also": got.get("0:e!")})
        return
    problem = m["chk"]([x for x in have[2:].split(";") if x])
    if problem:
        t.violation(f"handler:gadget-parameter:{m['label']}", {"source": m["source"], "problem": problem, "observed": have})


def shard_work(shard, nshards, payload):
    tier = payload["tier"]
    vd = vc.worker_vdrive()
    t = vc.Tally()
    ps = []
    for k, sk in h1_programs(tier):
        if k % nshards != shard:
            continue
        p = prepare_h1(vd, k, sk, t)
        if p is not None:
            ps.append(p)
    for i in range(0, len(ps), 40):
        batch = ps[i:i + 40]
        res = harness.run_batch(batch, tag=f"c13h1-{shard}")
        for p in batch:
            judge_h1(t, p, res[p.pid])
    if ps:
        t.sample({"family": "H1", "source": ps[-1].meta["source"][-300:], "states": len(ps[-1].meta["states"])})
    other = []
    for k, case in enumerate(h2_cases()):
        if k % nshards == shard:
            p = prepare_h2(vd, k, case, t)
            if p is not None:
                other.append(("h2", p))
    for k, case in enumerate(h3_cases()):
        if k % nshards == shard:
            p = prepare_h3(vd, case, t)
            if p is not None:
                other.append(("h3", p))
    for k, case in enumerate(h5_cases()):
        if k % nshards == shard:
            p = prepare_h5(vd, k, case, t)
            if p is not None:
                other.append(("h5", p))
    if other:
        res = harness.run_batch([p for _k, p in other], tag=f"c13o-{shard}")
        for kind, p in other:
            {"h2": judge_h2, "h3": judge_h3, "h5": judge_h5}[kind](t, p, res[p.pid])
    if shard == 1 % nshards:
        from checks import c16
        for label, src, marks in facility_docs():
            r = vd.job({"id": label, "source": src, "modes": ["generate"]})
            t.inc("facility_documents")
            g = r["modes"]["generate"]
            if r.get("has_syntax_error"):
                raise vc.MachineryError("document does not parse:\n" + src)
            t.distinct.add(("facility", label))
            if not vc.accepted(g):
                t.violation("rejected-a-valid-handler:facility:" + label.split("/")[0], {"source": src, "diagnostics": g.get("diagnostics")})
                continue
            h = g["header"] or ""
            for mk in marks:
                if mk not in h:
                    t.violation("handler:prescribed-call-missing:" + mk.strip("("), {"source": src, "program": label})
            for clause, msg in c16.scan_header(h)[0]:
                if clause.startswith("include:"):
                    t.violation("handler:call-needs-a-header-that-is-not-included:" + clause[8:], {"source": src, "program": label})
    if shard == 0:
        for label, text in REJECTS:
            src = HEAD + f"    VObj {{\n        id: t\n        {text}\n    }}\n}}\n"
            r = vd.job({"id": label, "source": src, "modes": ["generate"]})
            t.inc("reject_cases")
            g = r["modes"]["generate"]
            if r.get("has_syntax_error"):
                continue
            if vc.accepted(g) or not any(d["kind"] == "error" for d in g["diagnostics"]):
                t.violation("accepted-a-handler-that-must-be-rejected:" + label, {"source": src})
        for cls, text in REAL_AMBIGUOUS:
            src = HEAD + f"    {cls} {{\n        id: t\n        {text}\n    }}\n}}\n"
            r = vd.job({"id": text, "source": src, "modes": ["generate"]})
            t.inc("reject_cases")
            g = r["modes"]["generate"]
            if r.get("has_syntax_error"):
                raise vc.MachineryError("document does not parse:\n" + src)
            if vc.accepted(g):
                # accepted: then it must be because the metatypes list one C++ function only; otherwise a violation
                sigs = [x for x in qtmock.load_types().get(cls, {}).get("signals", []) if x["name"] == text.split(":")[0][2].lower() + text.split(":")[0][3:]]
                arities = sorted(len(x.get("arguments", [])) for x in sigs)
                chain = all(a.get("arguments", [])[:len(b.get("arguments", []))] == b.get("arguments", []) or
                            b.get("arguments", [])[:len(a.get("arguments", []))] == a.get("arguments", []) for a in sigs for b in sigs)
                if not chain:
                    t.violation("accepted-a-handler-that-must-be-rejected:real-overloads:" + cls + "." + text.split(":")[0], {"source": src, "arities": arities})
        for cls, text in REAL_NON_SIGNALS:
            src = HEAD + f"    {cls} {{\n        id: t\n        {text}\n    }}\n}}\n"
            r = vd.job({"id": text, "source": src, "modes": ["generate"]})
            t.inc("reject_cases")
            g = r["modes"]["generate"]
            if r.get("has_syntax_error"):
                raise vc.MachineryError("document does not parse:\n" + src)
            if vc.accepted(g) or not any(d["kind"] == "error" for d in g["diagnostics"]):
                t.violation("accepted-a-handler-that-must-be-rejected:non-signal:" + text.split(":")[0], {"source": src})
        for label, cls, text, signal in GROUP_HANDLERS:
            src = HEAD + f"    {cls} {{\n        id: t\n        {text}\n    }}\n}}\n"
            r = vd.job({"id": label, "source": src, "modes": ["generate"]})
            t.inc("reject_cases")
            g = r["modes"]["generate"]
            if r.get("has_syntax_error"):
                raise vc.MachineryError("group handler document does not parse:\n" + src)
            if vc.accepted(g) and not re.search(r"QObject::connect\([^\n]*::%s\b" % signal, g["header"] or ""):
                t.violation("handler-in-object-group-accepted-but-not-connected:" + label, {"source": src})
    return t


def main(tier, t0):
    vc.ensure_vdrive()
    import qtmock
    qtmock.load_types()
    tally = vc.merge_tallies(vc.run_sharded(shard_work, {"tier": tier}))
    c = tally.counts
    cov = {
        "evaluations": c.get("evaluations", 0),
        "distinct_nontrivial": len(tally.distinct),
        "rule": "an evaluation = one emission of one signal on the compiled generated code in one state, its trace "
                "compared with the reference trace; distinct = handler programs (H1) / (form, argument tuple) pairs "
                "(H2) / (handler signal, emitted signal) pairs (H3)",
        "exhaustive": True,
        "bound_completed": {"H1_skeleton_nodes": 4 if tier == "thorough" else 3},
        "programs": c.get("programs", 0),
        "programs_with_two_or_more_outcomes": c.get("programs_with_two_or_more_outcomes", 0),
        "handlers_rejected": c.get("handlers_rejected", 0),
        "reject_cases": c.get("reject_cases", 0),
        "programs_not_compiling": c.get("programs_not_compiling", 0),
    }
    assumptions = [
        "signal/slot semantics of the model (engine/qtmock): direct connections, synchronous slots; default-argument "
        "pairs of the metatypes are one C++ function with default arguments (the Qt convention)",
        "slots and setters record '<object>.<name>(<args>)', console.* records its level and space-separated text",
    ]
    return vc.finish("C13", tier, LEVEL, tally, cov, assumptions, t0)


def replay(path):
    vc.ensure_vdrive()
    r = json.load(open(path))
    c = r["case"]
    print(c.get("source"))
    print("expected:", c.get("expected"), "observed at the time:", c.get("observed"), "state/arguments:", c.get("state") or c.get("arguments") or c.get("emitted"))
    vd = vc.VDrive()
    g = vd.job({"id": 0, "source": c["source"], "modes": ["generate"]})["modes"]["generate"]
    vd.close()
    print(g.get("header") or g.get("diagnostics"))
    print(f"VIOLATION property=C13 replay={path}  (re-run the check to re-judge)")
    return 1
