"""C09  The .ui is well-formed, grammar-conformant XML that preserves strings.

(a) structure: every accepted document of the shared corpora is parsed with expat and checked
    against the form-grammar model (lib/uiread.py);
(b) strings: every sequence of length <= 2 (thorough: 3) over a 16-symbol alphabet of markup
    characters, quotes, blanks, line breaks and non-ASCII is placed in every string sink (element
    text with and without qsTr, string lists, model items, attribute values, pixmap, font family,
    tab attributes, key sequences), and read back with an XML parser;
(c) class and object names over an identifier alphabet with non-ASCII letters.
"""
import importlib
import itertools
import json
import unicodedata

import corpus
import qml
import uiread
import vcommon as vc

LEVEL = "exploration"

ALPHABET = ["<", ">", "&", '"', "'", " ", "\t", "\n", "\r", "é", "\u0085", " ",
            "\U0001F600", "]", ";", "a"]
PACK = 32


def char_class(ch):
    return {"\r": "CR", "\n": "LF", "\t": "TAB", " ": "SPACE", "\u0085": "NEL", " ": "LS"}.get(
        ch, "U+%04X" % ord(ch) if ord(ch) > 0x7e or ord(ch) < 0x20 else repr(ch))


def strings_for(tier):
    maxlen = 3 if tier == "thorough" else 2
    out = [""]
    for n in range(1, maxlen + 1):
        for tup in itertools.product(ALPHABET, repeat=n):
            out.append("".join(tup))
    # the sequences XML itself gives a meaning to, as units of the alphabet: alone and next to every symbol
    for w in XML_WORDS:
        out.append(w)
        for ch in ALPHABET:
            out += [w + ch, ch + w]
    return out


XML_WORDS = ["]]>", "<!--", "-->", "<?x?>", "&amp;", "&#10;", "&#x0;", "<![CDATA[", "</string>", "<a b='c'/>"]


# ---- sinks: (name, kind, build(strings) -> source, extract(root) -> [(value, extra)])

def _labels(fmt):
    def build(ss):
        body = "\n".join("    QLabel { " + fmt.format(qml.qstr(s)) + " }" for s in ss)
        return "import qmluic.QtWidgets\nQWidget {\n" + body + "\n}\n"
    return build


def _x_prop(tag, pname, want_notr):
    def extract(root):
        out = []
        for w in root.find("widget").findall("widget"):
            p = uiread.prop(w, pname)
            v = p.children[0]
            if v.tag != tag:
                raise ValueError(f"<{v.tag}> where <{tag}> expected")
            if want_notr is not None and (v.attrs.get("notr") == "true") != want_notr:
                raise ValueError(f"notr={v.attrs.get('notr')!r} but translatable={not want_notr}")
            out.append(v.text)
        return out
    return extract


def _build_list(ss):
    return ("import qmluic.QtWidgets\nVObj { sl: [" +
            ", ".join(qml.qstr(s) for s in ss) + "] }\n")


def _x_list(root):
    v = uiread.prop(root.find("widget"), "sl").children[0]
    if v.tag != "stringlist" or v.attrs.get("notr") != "true":
        raise ValueError(f"<{v.tag} {v.attrs}>")
    return [c.text for c in v.children]


def _build_trlist(ss):
    return ("import qmluic.QtWidgets\nVObj { sl: [" +
            ", ".join("qsTr(%s)" % qml.qstr(s) for s in ss) + "] }\n")


def _x_trlist(root):
    v = uiread.prop(root.find("widget"), "sl").children[0]
    if v.tag != "stringlist" or "notr" in v.attrs:
        raise ValueError(f"<{v.tag} {v.attrs}>")
    return [c.text for c in v.children]


def _build_model(ss):
    return ("import qmluic.QtWidgets\nQComboBox { model: [" + ", ".join(qml.qstr(s) for s in ss) + "] }\n")


def _x_model(root):
    out = []
    for it in root.find("widget").findall("item"):
        v = uiread.prop(it, "text").children[0]
        out.append(v.text)
    return out


def _build_theme(ss):
    body = "\n".join("    QToolButton { icon.name: " + qml.qstr(s) + " }" for s in ss)
    return "import qmluic.QtWidgets\nQWidget {\n" + body + "\n}\n"


def _x_theme(root):
    out = []
    for w in root.find("widget").findall("widget"):
        v = uiread.prop(w, "icon").children[0]
        if v.tag != "iconset":
            raise ValueError(v.tag)
        out.append(v.attrs.get("theme"))
    return out


def _build_tab(ss):
    body = "\n".join("    QWidget { QTabWidget.title: " + qml.qstr(s) + " }" for s in ss)
    return "import qmluic.QtWidgets\nQTabWidget {\n" + body + "\n}\n"


def _x_tab(root):
    out = []
    for w in root.find("widget").findall("widget"):
        v = uiread.prop(w, "title", "attribute").children[0]
        out.append(v.text)
    return out


def _build_family(ss):
    body = "\n".join("    QLabel { font.family: " + qml.qstr(s) + " }" for s in ss)
    return "import qmluic.QtWidgets\nQWidget {\n" + body + "\n}\n"


def _x_family(root):
    return [uiread.prop(w, "font").children[0].find("family").text
            for w in root.find("widget").findall("widget")]


def _build_shortcut(ss):
    body = "\n".join("    QAction { text: \"x\"; shortcut: " + qml.qstr(s) + " }" for s in ss)
    return "import qmluic.QtWidgets\nQWidget {\n" + body + "\n}\n"


def _x_shortcut(root):
    return [uiread.prop(a, "shortcut").children[0].text for a in root.find("widget").findall("action")]


SINKS = [
    ("string-notr", "element-text", _labels("text: {}"), _x_prop("string", "text", True)),
    ("string-tr", "element-text", _labels("text: qsTr({})"), _x_prop("string", "text", False)),
    ("stringlist", "element-text", _build_list, _x_list),
    ("stringlist-tr", "element-text", _build_trlist, _x_trlist),
    ("model-item", "element-text", _build_model, _x_model),
    ("pixmap", "element-text", _labels("pixmap: {}"), _x_prop("pixmap", "pixmap", None)),
    ("font-family", "element-text", _build_family, _x_family),
    ("tab-title", "element-text", _build_tab, _x_tab),
    ("shortcut", "element-text", _build_shortcut, _x_shortcut),
    ("icon-theme", "attribute-value", _build_theme, _x_theme),
]

IDENT_NAMES = ["a", "a1", "_x", "x_", "été", "ünï", "名前", "q́",
               "label1", "root", "A", "Ωmega", "z9_é"]
TYPE_NAMES = ["MyType", "T", "My_Type2", "Écran", "窓", "x", "Týpe"]


def string_jobs(tier):
    ss = strings_for(tier)
    k = 0
    for name, kind, build, extract in SINKS:
        for i in range(0, len(ss), PACK):
            chunk = ss[i:i + PACK]
            yield (k, f"str/{name}/{i}", name, kind, chunk, build(chunk))
            k += 1


def documents(tier, for_c14=False):
    for _k, cid, _n, _kind, _chunk, src in string_jobs("quick"):
        yield (cid, src)


def structure_docs(tier):
    for name, text in corpus.all_seeds("thorough"):
        yield (name, text)
    for mname in ["c08", "c03", "c04", "c10", "c11", "c12", "c20", "c19x"]:
        try:
            mod = importlib.import_module(f"checks.{mname}")
        except ModuleNotFoundError:
            continue
        if mname == "c08":
            for n, t in mod.RICH:
                yield (n, t)
            continue
        gen = getattr(mod, "documents", None)
        if gen:
            for cid, src in gen(tier, for_c14=True):
                yield (f"{mname}:{cid}", src)
    for cid, src in corpus.stressor_docs():
        yield (cid, src)


def lost(r):
    return r.get("crashed") or r.get("timeout") or "modes" not in r or \
        r["modes"]["generate"].get("status") == "panic"


def check_structure(t, cid, src, ui, type_name):
    try:
        root = uiread.parse(ui)
    except uiread.UiParseError as e:
        t.violation("well-formedness:not-parsable", {"id": cid, "source": src, "error": str(e), "ui": ui[:2000]})
        return None
    probs = uiread.check_grammar(root, type_name)
    t.inc("files_parsed")
    t.inc("elements_checked", sum(1 for _ in root.iter()))
    for clause, msg in probs:
        e = msg.split(" ")[0].split("/")[-1].split("[")[0]
        t.violation(f"grammar:{clause}:{e}", {"id": cid, "source": src, "problem": msg})
    return root


def shard_work(shard, nshards, payload):
    tier = payload["tier"]
    vd = vc.worker_vdrive()
    t = vc.Tally()
    # (b) strings
    for k, cid, sink, kind, chunk, src in string_jobs(tier):
        if k % nshards != shard:
            continue
        r = vd.job({"id": cid, "source": src, "modes": ["generate"]})
        if lost(r):
            t.lost.append({"id": cid})
            continue
        g = r["modes"]["generate"]
        t.inc("string_documents")
        if not vc.accepted(g, r.get("has_syntax_error")):
            t.violation(f"strings:{sink}:document-rejected",
                        {"id": cid, "source": src, "diagnostics": g.get("diagnostics")})
            continue
        root = check_structure(t, cid, src, g["ui"], "MyType")
        if root is None:
            continue
        extract = [s for s in SINKS if s[0] == sink][0][3]
        try:
            got = extract(root)
        except Exception as e:  # noqa
            t.violation(f"strings:{sink}:value-element-not-found",
                        {"id": cid, "source": src, "error": repr(e), "ui": g["ui"][:1500]})
            continue
        if len(got) != len(chunk):
            t.violation(f"strings:{sink}:count-mismatch",
                        {"id": cid, "source": src, "expected": len(chunk), "got": len(got)})
            continue
        for want, have in zip(chunk, got):
            t.inc("strings_checked")
            t.inc(f"strings:{sink}")
            t.distinct.add((sink, want))
            if have != want:
                # which character class broke the round trip?
                cls = "?"
                for a, b in itertools.zip_longest(want, have or ""):
                    if a != b:
                        cls = char_class(a) if a is not None else "EXTRA"
                        break
                t.violation(f"roundtrip:{kind}:{cls}",
                            {"id": cid, "sink": sink, "string": want, "read_back": have,
                             "source": [s for s in SINKS if s[0] == sink][0][2]([want])})
    # (c) names
    k = 0
    for tn in TYPE_NAMES:
        for ids in (IDENT_NAMES[:7], IDENT_NAMES[7:]):
            k += 1
            if k % nshards != shard:
                continue
            root_o = qml.Obj("QWidget", None, [qml.Obj("QLabel", i) for i in ids])
            src = qml.render(root_o)
            r = vd.job({"id": f"names/{k}", "source": src, "modes": ["generate"], "type_name": tn})
            if lost(r):
                t.lost.append({"id": f"names/{k}"})
                continue
            g = r["modes"]["generate"]
            t.inc("name_documents")
            if not vc.accepted(g, r.get("has_syntax_error")):
                # identifiers the grammar does not accept are not C09's business
                t.inc("name_documents_rejected")
                continue
            root = check_structure(t, f"names/{k}", src, g["ui"], tn)
            if root is None:
                continue
            names = [w.attrs.get("name") for w in root.find("widget").findall("widget")]
            if names != ids:
                t.violation("roundtrip:object-name", {"id": f"names/{k}", "source": src,
                                                      "expected": ids, "got": names})
            t.inc("names_checked", len(ids) + 1)
    # (a) structure of the shared corpora
    for j, (cid, src) in enumerate(structure_docs(tier)):
        if j % nshards != shard:
            continue
        r = vd.job({"id": cid, "source": src, "modes": ["generate"]})
        if lost(r):
            t.lost.append({"id": cid})
            continue
        g = r["modes"]["generate"]
        t.inc("structure_documents")
        if g.get("status") == "built" and not r.get("has_syntax_error"):
            # any emitted form is judged, accepted or not (preview shows it)
            if vc.accepted(g):
                t.inc("structure_accepted")
                check_structure(t, cid, src, g["ui"], "MyType")
                if j % 400 == 0:
                    t.sample({"id": cid, "source_head": src[:120]})
    return t


# --------------------------------------------------------------------------- (d) files as the command writes them

CLI_OPS = ["run-all", "run-first-two", "run-last-two", "edit-1", "edit-2", "edit-3", "delete-ui-2", "delete-ui-3"]


def cli_source(k, rev):
    # the number of extra labels cycles 0, 1, 2, 0, ... with the revision: an edit makes the outputs longer or shorter
    # ... except for the second source, whose edits change one digit only: outputs of the same length with another content
    extra = "".join("    QLabel { text: \"extra %d\" }\n" % i for i in range(rev % 3 if k != 1 else 1))
    return ("import qmluic.QtWidgets\nQWidget {\n    windowTitle: \"doc %d <&> rev %d\"\n"
            "    QCheckBox { id: cb }\n    QLabel { text: \"a\\r\\n'b' %d\"; visible: cb.checked }\n%s}\n" % (k, rev, k, extra))


def cli_histories(tier):
    n = 4 if tier == "thorough" else 3
    for length in range(1, n + 1):
        for h in itertools.product(CLI_OPS, repeat=length):
            if not h[-1].startswith("run") or (length > 1 and not any(x.startswith("run") for x in h[:-1])):
                continue        # ends with a run, and something was generated before the last run
            yield h


def cli_work(shard, nshards, payload):
    import os
    import subprocess
    t = vc.Tally()
    vd = vc.worker_vdrive()
    stems = ["First", "second", "ThirdForm"]      # the class of a form is its file stem, exactly as spelt
    with vc.scratch_dir("c09cli") as scratch:
        for hi, hist in enumerate(cli_histories(payload["tier"])):
            if hi % nshards != shard:
                continue
            d = os.path.join(scratch, f"h{hi}")
            os.makedirs(d)
            rev = {s_: k for k, s_ in enumerate(stems)}        # First grows at its next edits, Third shrinks at once
            for k, s_ in enumerate(stems):
                with open(os.path.join(d, s_ + ".qml"), "w") as f:
                    f.write(cli_source(k, rev[s_]))
            for step, op in enumerate(hist):
                if op.startswith("edit-"):
                    k = int(op[-1]) - 1
                    rev[stems[k]] += 1
                    with open(os.path.join(d, stems[k] + ".qml"), "w") as f:
                        f.write(cli_source(k, rev[stems[k]]))
                    continue
                if op.startswith("delete-ui-"):
                    k = int(op[-1]) - 1
                    try:
                        os.remove(os.path.join(d, stems[k].lower() + ".ui"))
                    except FileNotFoundError:
                        pass
                    continue
                which = {"run-all": stems, "run-first-two": stems[:2], "run-last-two": stems[1:]}[op]
                p_ = subprocess.run([vc.QMLUIC_BIN, "generate-ui", "--foreign-types", vc.METATYPES] + [w + ".qml" for w in which],
                                    cwd=d, stdout=subprocess.PIPE, stderr=subprocess.PIPE, timeout=60)
                t.inc("cli_runs")
                case = {"id": f"cli/{hi}", "history": list(hist), "step": step}
                if p_.returncode != 0:
                    t.violation("cli:run-failed", dict(case, stderr=p_.stderr.decode("utf-8", "replace")[-500:]))
                    break
                for k, s_ in enumerate(stems):
                    if s_ not in which:
                        continue
                    with open(os.path.join(d, s_.lower() + ".ui"), "rb") as f:
                        data = f.read().decode("utf-8", "replace")
                    t.inc("cli_files_checked")
                    root = check_structure(t, f"cli/{hi}/{step}/{s_}", "history " + " ".join(hist), data, s_)
                    if root is None:
                        continue
                    want = vd.job({"id": 0, "source": cli_source(k, rev[s_]), "modes": ["generate"], "type_name": s_})["modes"]["generate"]["ui"]
                    if data != want:
                        t.violation("cli:file-differs-from-the-translation-of-its-source", dict(case, file=s_.lower() + ".ui", got=data[:1500]))
            t.distinct.add(("cli",) + hist)
            import shutil
            shutil.rmtree(d, ignore_errors=True)
    return t


def main(tier, t0):
    vc.ensure_vdrive()
    vc.ensure_cli()
    tally = vc.merge_tallies(vc.run_sharded(shard_work, {"tier": tier}))
    tally.merge(vc.merge_tallies(vc.run_sharded(cli_work, {"tier": tier})))
    c = tally.counts
    cov = {
        "evaluations": c.get("strings_checked", 0) + c.get("files_parsed", 0) + c.get("names_checked", 0),
        "distinct_nontrivial": len(tally.distinct),
        "rule": "distinct (sink, string) pairs, strings = every sequence up to the stated length over the "
                "16-symbol alphabet " + repr("".join(ALPHABET)) + "; plus every accepted corpus document "
                "parsed and matched against the form grammar",
        "exhaustive": True,
        "bound_completed": {"string_length": 3 if tier == "thorough" else 2, "sinks": [s[0] for s in SINKS]},
        "files_parsed": c.get("files_parsed", 0),
        "elements_checked": c.get("elements_checked", 0),
        "strings_per_sink": {k.split(":", 1)[1]: v for k, v in c.items() if k.startswith("strings:")},
        "structure_documents": c.get("structure_documents", 0),
        "structure_accepted": c.get("structure_accepted", 0),
        "names_checked": c.get("names_checked", 0),
        "files_written_by_the_command": {"histories": sum(1 for _ in cli_histories(tier)), "runs": c.get("cli_runs", 0),
                                         "files_checked": c.get("cli_files_checked", 0), "operations": CLI_OPS},
    }
    assumptions = [
        "the XML parser is expat (XML 1.0 normalisation of line ends and attribute values applies, "
        "as it does in uic's QXmlStreamReader)",
        "form grammar = lib/uiread.py GRAMMAR (elements strict; attributes strict where ui4 defines any)",
        "characters XML 1.0 cannot carry (C0 controls other than TAB/LF/CR, U+FFFE/FFFF) are excluded",
    ]
    return vc.finish("C09", tier, LEVEL, tally, cov, assumptions, t0)


def replay(path):
    vc.ensure_vdrive()
    r = json.load(open(path))
    case = r["case"]
    vd = vc.VDrive()
    t = vc.Tally()
    src = case["source"]
    res = vd.job({"id": 0, "source": src, "modes": ["generate"]})
    vd.close()
    g = res["modes"]["generate"]
    if "sink" in case:
        sink = [s for s in SINKS if s[0] == case["sink"]][0]
        got = sink[3](uiread.parse(g["ui"]))
        print("expected", repr(case["string"]), "read back", repr(got[0]))
        if got[0] != case["string"]:
            print(f"VIOLATION property=C09 replay={path}")
            return 1
        return 0
    if g.get("status") == "built":
        check_structure(t, case.get("id"), src, g["ui"], "MyType")
    if t.violations:
        print(f"VIOLATION property=C09 replay={path}")
        for s, _ in t.violations:
            print("  ", s)
        return 1
    print("replay: holds now")
    return 0
