"""C05  Static typing discipline: ill-typed programs are rejected, valid ones accepted.

Exhaustive operator x operand-kind table (every unary, binary, ternary and cast form over typed
leaves of every kind, constant and dynamic spellings, depth 1 complete and depth 2 on a reduced
set) judged by a reference type checker derived from docs/language.md (lib/reftypes.py), plus
single type-breaking edits of well-typed statements, declarations, calls, callbacks and
bindings, plus the list of unsupported operators and statements.
"""
import itertools
import json

import reftypes as rt
import vcommon as vc

LEVEL = "exploration"

DOC = """import qmluic.QtWidgets
QWidget {{
    id: root
    VObj {{ id: a }}
    VSub {{ id: sub }}
    VObj {{
        id: t
        {body}
    }}
}}
"""


def in_handler(stmts):
    return DOC.format(body="onFired: { " + stmts + " }")


def in_binding(prop, expr):
    return DOC.format(body=f"{prop}: {expr}")


# --------------------------------------------------------------------------- expression table

def expr_cases(tier):
    leaves = list(rt.all_leaves())
    for op in rt.UNOPS:
        for l in leaves:
            yield ("un:" + op, ("un", op, l))
    for op in rt.BINOPS:
        for l, r in itertools.product(leaves, repeat=2):
            yield ("bin:" + op, ("bin", op, l, r))
    conds = [x for x in leaves if x[2] in ("a.b", "true", "a.i", "1", "a.s", "null", "a.p", "a.e")]
    for c in conds:
        for l, r in itertools.product(leaves, repeat=2):
            yield ("tern", ("tern", c, l, r))
    for l in leaves:
        for target in rt.CAST_TARGETS:
            yield ("as:" + target, ("as", l, target))
    # depth 2
    small_kinds = ["I", "n", "U", "D", "B", "S", "E", "P", "null"] if tier == "thorough" else \
        ["I", "n", "D", "B", "S", "P"]
    small = [("leaf", k, rt.LEAVES[k][0][0]) for k in small_kinds]
    ops = rt.BINOPS if tier == "thorough" else ["+", "*", "%", "&", "<<", "==", "<", "&&"]
    for op1, op2 in itertools.product(ops, repeat=2):
        for x, y, z in itertools.product(small, repeat=3):
            yield (f"bin2:{op2}({op1})", ("bin", op2, ("bin", op1, x, y), z))
            yield (f"bin2:{op1}(.,{op2})", ("bin", op1, x, ("bin", op2, y, z)))
    for op in ["-", "!", "~"]:
        for op2 in ops:
            for x, y in itertools.product(small, repeat=2):
                yield (f"un2:{op}({op2})", ("un", op, ("bin", op2, x, y)))
    for x, y, z in itertools.product(small, repeat=3):
        yield ("tern2", ("bin", "+", ("tern", ("leaf", "B", "a.b"), x, y), z))
        yield ("tern2c", ("tern", ("bin", "==", x, y), z, z))


def _cv(e):
    import consteval as ce
    tag = e[0]
    if tag == "leaf":
        return {"1": ("int", 1), "1.5": ("float", 1.5), "true": ("bool", True), '"s"': ("str", "s")}.get(e[2])
    if tag == "un":
        a = _cv(e[2])
        return ce.unary(e[1], a) if a is not None else None
    if tag == "bin" and e[1] not in ("&&", "||"):
        a, b = _cv(e[2]), _cv(e[3])
        return ce.binary(e[1], a, b) if a is not None and b is not None else None
    return None


def const_value_undefined(e):
    """True if some fully constant sub-expression has an undefined value (e.g. 1 % (1 - 1))."""
    v = _cv(e)
    if v is not None and v in (("UNDEF",), ("nonfinite",), ("UNSPEC",)):
        return True
    return any(const_value_undefined(x) for x in e[1:] if isinstance(x, tuple) and x and x[0] in ("leaf", "un", "bin", "tern", "as"))


def kinds_of(e):
    tag = e[0]
    if tag == "leaf":
        return [e[1]]
    out = []
    for x in e[1:]:
        if isinstance(x, tuple):
            out += kinds_of(x)
    return out


# --------------------------------------------------------------------------- statement edits

def statement_cases():
    """(label, source, verdict)"""
    R, A, U = rt.REJ, rt.OK, rt.UNS
    nonbool = ["a.i", "1", "a.s", '"s"', "a.p", "null", "a.e", "a.sl", "a.d", "a.u", "a.v", "a.act()"]
    yield ("cond:if:bool", in_handler("if (a.b) { a.act(); }"), A)
    yield ("cond:if-else:bool", in_handler("if (a.b) { a.act(); } else { a.done(1); }"), A)
    yield ("cond:ternary:bool", in_handler("a.done(a.b ? 1 : 2);"), A)
    yield ("cond:and:bool", in_handler("if (a.b && a.c) a.act();"), A)
    yield ("cond:not:bool", in_handler("if (!a.b) a.act();"), A)
    for x in nonbool:
        yield (f"cond:if:{x}", in_handler(f"if ({x}) {{ a.act(); }}"), R)
        yield (f"cond:ternary:{x}", in_handler(f"a.done({x} ? 1 : 2);"), R)
        yield (f"cond:and-left:{x}", in_handler(f"if ({x} && a.b) a.act();"), R)
        yield (f"cond:and-right:{x}", in_handler(f"if (a.b && {x}) a.act();"), R)
        yield (f"cond:or-left:{x}", in_handler(f"if ({x} || a.b) a.act();"), R)
        yield (f"cond:or-right:{x}", in_handler(f"if (a.b || {x}) a.act();"), R)
        yield (f"cond:not:{x}", in_handler(f"if (!{x}) a.act();"), R)
    # declarations: let x: T = <leaf>
    decl_types = {"int": "I", "uint": "U", "double": "D", "bool": "B", "QString": "S", "VObj": "P",
                  "VSub": "PS", "QWidget": "PW"}
    for tname, tk in decl_types.items():
        for leaf in rt.all_leaves():
            v = rt.assignable(tk, leaf[1])
            yield (f"let:{tname}={leaf[2]}", in_handler(f"let x: {tname} = {leaf[2]};"), v)
            yield (f"const:{tname}={leaf[2]}", in_handler(f"const x: {tname} = {leaf[2]};"), v)
    # ... and with an operator expression on the right: the *result type* of the operator is what is assigned
    num = [l for l in rt.all_leaves() if l[1] in ("n", "I", "U", "D")]
    shapes = []
    for l, r in itertools.product(num, repeat=2):
        for op in ("+", "-", "*", "/", "%", "&", "|", "^"):
            shapes.append((("bin", op, l, r), rt.show(("bin", op, l, r))))
        shapes.append((("tern", ("leaf", "B", "a.b"), l, r), f"(a.b ? {l[2]} : {r[2]})"))
    for e, text in shapes:
        v, k = rt.typeof(e)
        for tname, tk in (("int", "I"), ("uint", "U"), ("double", "D")):
            if v == rt.REJ:
                verdict = R
            elif v != rt.OK or k in (None, "nI"):
                verdict = U
            else:
                verdict = rt.assignable(tk, k)
            yield (f"let-expr:{tname}={text}", in_handler(f"let x: {tname} = {text};"), verdict)
            yield (f"write-expr:{tname}={text}", in_handler(f"a.{ {'int': 'i', 'uint': 'u', 'double': 'd'}[tname] } = {text};"), verdict)
    for leaf in rt.all_leaves():
        k = leaf[1]
        v = R if k in ("void", "null", "[]") else A
        yield (f"let-infer:{leaf[2]}", in_handler(f"let x = {leaf[2]};"), v)
    yield ("let:no-type-no-init", in_handler("let x;"), R)
    yield ("let:type-no-init", in_handler("let x: int; x = 1; a.done(x);"), A)
    yield ("const:no-init", in_handler("const x: int;"), R)
    yield ("const:reassign", in_handler("const x = 1; x = 2;"), R)
    yield ("let:reassign", in_handler("let x = 1; x = 2; a.done(x);"), A)
    yield ("let:reassign-other-type", in_handler("let x = 1; x = 1.5;"), R)
    yield ("let:reassign-string", in_handler('let x = 1; x = "s";'), R)
    yield ("let:shadow-in-block", in_handler("let x = 1; { let x = \"s\"; a.say(x); } a.done(x);"), A)
    yield ("let:out-of-scope", in_handler("{ let zq = 1; } a.done(zq);"), R)
    yield ("let:upcast", in_handler("let w: QWidget = a; w.setEnabled(true);"), A)
    yield ("let:downcast", in_handler("let v: VSub = a;"), R)
    # property writes
    for leaf in rt.all_leaves():
        for prop, k in (("i", "I"), ("u", "U"), ("d", "D"), ("b", "B"), ("s", "S"), ("e", "E"),
                        ("f", "F"), ("p", "P"), ("sl", "L")):
            yield (f"write:{prop}={leaf[2]}", in_handler(f"a.{prop} = {leaf[2]};"),
                   rt.assignable(k, leaf[1]))
    yield ("write:read-only", in_handler("a.ro = 1;"), R)
    yield ("write:write-only-read", in_handler("a.done(a.wo);"), R)
    yield ("write:write-only", in_handler("a.wo = 1;"), A)
    yield ("write:rvalue-gadget-member", in_handler("a.font.bold = true;"), R)
    yield ("write:rvalue", in_handler("a.i + 1 = 2;"), R)
    yield ("write:literal", in_handler("1 = 2;"), R)
    yield ("write:method", in_handler("a.act = 1;"), R)
    yield ("write:subscript-rvalue", in_handler('a.sl[0] = "x";'), R)
    yield ("write:subscript-local", in_handler('let l = a.sl; l[0] = "x"; a.sl = l;'), A)
    yield ("write:subscript-local-wrong-type", in_handler("let l = a.sl; l[0] = 1;"), R)
    yield ("read:subscript", in_handler("a.say(a.sl[0]);"), A)
    yield ("read:subscript-index-string", in_handler('a.say(a.sl["0"]);'), R)
    yield ("read:subscript-index-double", in_handler("a.say(a.sl[1.5]);"), R)
    yield ("read:subscript-of-int", in_handler("a.done(a.i[0]);"), R)
    # every leaf as an index, read and written, and every leaf as the subscripted object: an index is an integer
    for leaf in rt.all_leaves():
        v = A if leaf[1] in ("I", "n", "U") else R
        yield (f"read:subscript-index:{leaf[2]}", in_handler(f"a.say(a.sl[{leaf[2]}]);"), v)
        yield (f"read:subscript-local-index:{leaf[2]}", in_handler(f"let l = a.sl; a.say(l[{leaf[2]}]);"), v)
        yield (f"write:subscript-index:{leaf[2]}", in_handler(f'let l = a.sl; l[{leaf[2]}] = "x"; a.sl = l;'), v)
        yield (f"write:subscript-index-compound:{leaf[2]}", in_handler(f'let l = a.sl; l[{leaf[2]}] = l[{leaf[2]}] + "x"; a.sl = l;'), v)
        vo = A if leaf[1] == "L" else R
        yield (f"read:subscript-of:{leaf[2]}", in_handler(f"let x = {leaf[2]}; let y = x[0];") if leaf[1] not in ("void", "null", "[]") else
               in_handler(f"let y = ({leaf[2]})[0];"), vo)
        if leaf[1] not in ("void", "null", "[]"):
            yield (f"write:subscript-of:{leaf[2]}", in_handler(f'let x = {leaf[2]}; x[0] = "x";'), vo)
        # the assigned value against the element type (QString)
        ve = A if leaf[1] in ("S", "s") else R
        yield (f"write:subscript-value:{leaf[2]}", in_handler(f"let l = a.sl; l[0] = {leaf[2]}; a.sl = l;"), ve)
    # calls
    calls = [("a.done(1)", A), ("a.done(a.i)", A), ("a.done()", R), ("a.done(1, 2)", R),
             ('a.done("s")', R), ("a.done(1.5)", R), ("a.done(a.u)", R), ("a.done(true)", R),
             ("a.done(a.e)", R), ("a.done(null)", R), ("a.say(1)", R), ('a.say("s")', A),
             ("a.say(a.s)", A), ("a.say(a.i)", R), ("a.take(a)", A), ("a.take(sub)", A),
             ("a.take(root)", R), ("a.take(null)", A), ("a.take(1)", R), ("a.act(1)", R),
             ("a.nosuch()", R), ("a.i()", R), ("a.act", R), ("a.done", R), ("a()", R), ("1()", R),
             ("a.sayMode(VObj.M1)", A), ("a.sayMode(VObj.F0)", R), ("a.sayMode(1)", R), ("a.sayMode(VObj.N1)", R),
             ("a.sayMode(a.e2)", R),
             ("a.sayList(a.sl)", A), ("a.sayList([])", A), ('a.sayList(["x"])', A),
             ("a.sayList([1])", R), ('a.sayList(["x", 1])', R), ("a.sayBool(a.i)", R),
             ("a.sayDouble(1)", R), ("a.sayDouble(1.5)", A), ("a.sayUint(1)", A), ("a.sayUint(a.i)", R),
             ("a.done(a.twice(1))", A), ("a.done(a.twice())", R), ("a.say(a.twice(1))", R),
             ("Math.max(1, 2)", A), ("Math.max(a.i, 2)", A), ("Math.min(a.d, 1.5)", A),
             ("Math.max(1)", R), ("Math.max(1, 2, 3)", R), ("Math.max(1, 1.5)", R),
             ('Math.max("a", 1)', R), ("Math.max(a.i, a.d)", R), ("Math.max(a.p, a.p)", R),
             ("Math.nosuch(1, 2)", R), ("Math.max", R), ("Math", R), ("Math.max(a.b, a.b)", U),
             ('Math.max("a", "b")', U), ("Math.max(a.u, a.u)", U),
             ('qsTr("a")', A), ("qsTr(1)", R), ('qsTr("a", "b")', R), ("qsTr()", R), ("qsTr(a.s)", U),
             ("qsTr", R), ('console.log("a")', A), ("console.log(a.i, a.s)", A), ("console.debug(1)", A),
             ("console.info(a.b)", A), ('console.warn("w")', A), ('console.error("e")', A),
             ("console.nosuch(1)", R), ("console", R), ("console.log", R),
             ("a.s.isEmpty()", A), ('"s".isEmpty()', A), ("a.sl.isEmpty()", A), ("a.i.isEmpty()", R),
             ("a.s.isEmpty(1)", R), ('"%1".arg(a.s)', A), ('a.s.arg("x")', A), ("a.s.nosuch()", R),
             ("nosuch", R), ("nosuch.x", R), ("a.nosuch", R), ("VObj", R), ("VObj.NoSuch", R),
             ("this.act()", A), ("act()", A), ("done(i)", A), ("this.nosuch()", R)]
    for text, v in calls:
        yield (f"call:{text}", in_handler(text + ";"), v)
    # callbacks: parameters against signal firedWith(int, QString), firedObj(VObj*), fired()
    cbs = [("onFiredWith: function() {}", A), ("onFiredWith: function(x: int) {}", A),
           ("onFiredWith: function(x: int, y: QString) { a.done(x); a.say(y); }", A),
           ("onFiredWith: function(x: int, y: QString, z: int) {}", R),
           ("onFiredWith: function(x: QString) {}", R), ("onFiredWith: function(x: int, y: int) {}", R),
           ("onFiredWith: function(x: double) {}", R), ("onFiredWith: function(x: uint) {}", R),
           ("onFiredWith: function(x: bool) {}", R), ("onFiredWith: function(x) {}", R),
           ("onFiredWith: function(x: int, x: QString) {}", R), ("onFiredWith: function(x: NoSuch) {}", R),
           ("onFiredWith: function(x: void) {}", R), ("onFiredWith: (x: int) => a.done(x)", A),
           ("onFiredWith: (x: QString) => a.say(x)", R), ("onFired: function(x: int) {}", R),
           ("onFired: a.act()", A), ("onFired: { }", A), ("onFired: function() { return; }", A),
           ("onFired: function named() {}", R),
           ("onFiredObj: function(o: VObj) { a.take(o); }", A), ("onFiredObj: function(o: QWidget) {}", A),
           ("onFiredObj: function(o: VSub) {}", R), ("onFiredObj: function(o: int) {}", R),
           ("onFiredBool: function(b: bool) { a.b = b; }", A), ("onFiredBool: function(b: int) {}", R),
           ("onFiredMode: function(m: VObj.Mode) { a.e = m; }", A),
           ("onFiredMode: function(m: int) {}", R), ("onFiredDefault: function(x: int) {}", A),
           ("onFiredDefault: function() {}", A), ("onAmb: function(x: int) {}", R),
           ("onAmb: a.act()", R), ("onDone: a.act()", R), ("onNoSuch: a.act()", R),
           ("onFired: { a: 1 }", U), ("onIChanged: a.act()", A), ("onIChanged: function(v: int) {}", A),
           ("onIChanged: function(v: QString) {}", R)]
    for text, v in cbs:
        yield (f"callback:{text}", DOC.format(body=text), v)
    # result type vs bound property type
    sinks = [("ri", "I"), ("ru", "U"), ("rd", "D"), ("rb", "B"), ("rs", "S"), ("re", "E"), ("re2", "E2"),
             ("rf", "F"), ("rp", "P"), ("rsl", "L")]
    leaves = list(rt.all_leaves()) + [("leaf", "L", '["x"]')]
    for (prop, k), leaf in itertools.product(sinks, leaves):
        v = rt.assignable(k, leaf[1])
        yield (f"bind:{prop}:{leaf[2]}", in_binding(prop, leaf[2]), v)
        if leaf[1] not in ("void",):
            # same value through a block with return (the dynamic / block path)
            yield (f"bind-block:{prop}:{leaf[2]}", in_binding(prop, "{ return " + leaf[2] + "; }"), v)
    # several return paths: the types of *all* of them must agree (literals adapt) and fit the sink
    rl = [("leaf", k, rt.LEAVES[k][0][0]) for k in ("I", "n", "D", "S", "s", "P", "PS", "PW", "null", "L", "[]", "E", "E2")]
    sink_of = {"I": "ri", "n": "ri", "D": "rd", "S": "rs", "s": "rs", "P": "rp", "PS": "rp", "PW": "rp",
               "null": "rp", "L": "rsl", "[]": "rsl", "E": "re", "E2": "re2"}
    kind_of_sink = dict((p, k) for p, k in sinks)
    for x, y, z in itertools.product(rl, repeat=3):
        prop = sink_of[z[1]] if z[1] not in ("null", "n", "s", "[]") else sink_of[x[1]]
        ks = [x[1], y[1], z[1]]
        u = ks[0]
        verdict = A
        for k in ks[1:]:
            u2 = rt.unify(u, k)
            if u2 == "related":
                verdict = U
                break
            if u2 is None:
                verdict = R
                break
            u = u2
        if verdict == A:
            verdict = rt.assignable(kind_of_sink[prop], u)
            if u in ("null", "[]") or (verdict == R and (u, kind_of_sink[prop]) in rt.DERIVES):
                verdict = U if u in ("null", "[]") else verdict
        yield (f"returns:{prop}:{x[2]}|{y[2]}|{z[2]}",
               in_binding(prop, "{ if (a.b) return " + x[2] + "; if (a.c) return " + y[2] + "; return " + z[2] + "; }"),
               verdict)
    yield ("bind:return-mixed-types", in_binding("ri", "{ if (a.b) return 1; return 1.5; }"), R)
    yield ("bind:return-int-and-void", in_binding("ri", "{ if (a.b) return 1; }"), R)
    yield ("bind:read-only-target", in_binding("ro", "a.i"), R)
    yield ("bind:read-only-target-const", in_binding("ro", "1"), R)
    yield ("bind:unknown-property", in_binding("nosuch", "1"), R)
    # unsupported operators and statements
    unsupported = ["a.i ** 2", "a.i >>> 1", "a.p ?? a", "\"i\" in a", "a instanceof VObj", "typeof a.i",
                   "void a.i", "delete a.i", "a.i++", "++a.i", "a.i--", "--a.i", "a.i += 1", "a.i -= 1",
                   "a.i, a.j", "`tpl`", "`t${a.i}`", "new VObj()", "a?.i", "({x: 1})", "a.i === 1 ? 1 : 2, 3",
                   "function() {}", "(function() {})()", "() => 1", "/re/", "a.i = a.j = 1", "[...a.sl]",
                   "a.sl.length", "a.s.length", "1 ? 2 : 3", "!!a.i", "-a.s", "await a", "yield 1",
                   "this", "super.x", "a.i as NoSuch", "a.i as VObj.NoSuch"]
    for text in unsupported:
        v = A if text == "this" else R
        yield (f"unsupported-expr:{text}", in_handler(f"let x = {text};" if text not in ("a.i, a.j",) else f"{text};"), v)
    stmts = ["for (;;) {}", "for (let k = 0; k < 1; k++) {}", "for (let k in a) {}", "for (let k of a.sl) {}",
             "while (a.b) {}", "do {} while (a.b);", "var x = 1;", "function f() {}", "try {} catch (e) {}",
             "throw 1;", "continue;", "lbl: { break lbl; }", "break;", "with (a) {}", "debugger;",
             "class C {}", "import('x');", "switch (a.i) { default: continue; }", "label: a.act();"]
    for text in stmts:
        yield (f"unsupported-stmt:{text}", in_handler(text), R)
    ok_stmts = ["switch (a.i) { case 1: a.act(); break; case 2: default: a.done(2); }",
                "switch (a.s) { case \"x\": a.act(); }", "switch (a.e) { case VObj.M1: a.act(); break; }",
                "if (a.i == 1) { a.act(); } else if (a.i == 2) { a.done(2); } else { return; }",
                "let x = a.i; const y = x + 1; a.done(y);", "return;", ";", "{ { a.act(); } }",
                "a.i = a.j + 1; a.s = a.t + \"x\";", "a.d = a.i as double; a.i = a.d as int; a.u = a.i as uint;",
                "a.i = a.e as int; a.i = a.b as int; a.i = a.v as int; a.s = a.v as QString;",
                "a.i as void; a.act() as void;", "a.b = a.p == null || a.p != a.q;",
                "a.b = a.i === 1 && a.s !== \"x\";", "a.i = Math.max(a.i, 1) % 3 << 2 >> 1 & 7 | 8 ^ 1;",
                "a.i = -a.i + +a.j - ~a.i;", "a.d = -a.d * 2.0 / 4.0 + 1.0 - 0.5;",
                "a.b = a.d < 1.0 || a.d >= 2.0 || a.s < \"m\" || a.u > 1;",
                "a.f = a.f | VObj.F1; a.f = a.f & VObj.F0; a.f = a.f ^ VObj.F2;"]
    for text in ok_stmts:
        yield (f"documented-stmt:{text[:40]}", in_handler(text), A)
    bad_switch = [("switch (a.i) { case \"x\": a.act(); }", R), ("switch (a.i) { case 1.5: a.act(); }", R),
                  ("switch (a.s) { case 1: a.act(); }", R), ("switch (a.i) { default: a.act(); default: a.act(); }", R),
                  ("switch (a.act()) { case 1: break; }", R), ("switch (a.p) { case null: a.act(); }", A)]
    for text, v in bad_switch:
        yield (f"switch:{text[:40]}", in_handler(text), v)


def documents(tier, for_c14=False):
    k = 0
    for label, src, _v in statement_cases():
        k += 1
        if for_c14 and k % 3:
            continue
        yield (label, src)
    for j, (label, e) in enumerate(expr_cases("quick")):
        if j % (31 if for_c14 else 1):
            continue
        yield (f"{label}/{j}", in_handler(rt.show(e) + ";"))


def judge(t, vd, cid, family, src, verdict, feature):
    r = vd.job({"id": cid, "source": src, "modes": list(vc.MODES)})
    if r.get("crashed") or r.get("timeout") or "modes" not in r or \
            any(r["modes"][m].get("status") == "panic" for m in vc.MODES):
        t.lost.append({"id": cid, "source": src})
        return None
    t.inc("programs")
    t.inc("verdict:" + verdict)
    t.distinct.add(src)
    case = {"id": cid, "family": family, "source": src, "expected": verdict}
    g = r["modes"]["generate"]
    acc = vc.accepted(g, r.get("has_syntax_error"))
    if verdict == rt.REJ:
        if r.get("has_syntax_error"):
            t.inc("rejected-by-syntax")
            return acc
        if acc:
            t.violation(f"accepted-ill-typed:{feature}", case)
            return acc
        # (omit mode drops dynamic bindings silently and produces no code for them, so an error is
        # demanded where code would be produced: generate mode; reject mode must not accept either)
        if not any(d["kind"] == "error" for d in g["diagnostics"]):
            t.violation(f"no-error-diagnostic:{feature}", case)
        if vc.accepted(r["modes"]["reject"], False):
            t.violation(f"accepted-ill-typed-in-reject-mode:{feature}", case)
    elif verdict == rt.OK:
        if not acc or g["diagnostics"]:
            t.violation(f"rejected-well-typed:{feature}",
                        dict(case, diagnostics=g.get("diagnostics"), syntax=r.get("syntax")))
    else:
        t.inc("unspecified-accepted" if acc else "unspecified-rejected")
    return acc


def shard_work(shard, nshards, payload):
    tier = payload["tier"]
    vd = vc.worker_vdrive()
    t = vc.Tally()
    pairs = {}
    for k, (family, e) in enumerate(expr_cases(tier)):
        if k % nshards != shard:
            continue
        verdict, _kind = rt.typeof(e)
        if verdict == rt.OK and const_value_undefined(e):
            verdict = rt.UNS      # well-typed, but the folded value is undefined (C03 owns that)
        text = rt.show(e)
        feat = family.split("/")[0] + ":" + ",".join(kinds_of(e))
        acc = judge(t, vd, f"expr/{k}", family, in_handler(text + ";"), verdict, feat)
        if k % 20000 == 0:
            t.sample({"expr": text, "expected": verdict})
    for k, (label, src, verdict) in enumerate(statement_cases()):
        if k % nshards != shard:
            continue
        fam = label.split(":")[0]
        judge(t, vd, f"stmt/{k}", fam, src, verdict, label.split("=")[0][:60] if fam in ("let", "const", "write", "bind", "bind-block") else (label.split("|")[0][:60] if fam == "returns" else label[:70]))
        if k % 400 == 0:
            t.sample({"label": label, "expected": verdict})
    return t


def const_dyn_relation(tier):
    """Acceptance must not depend on whether an operand is a literal or a dynamic read of the same
    type (kinds with both spellings: D, B, E, F)."""
    vd = vc.VDrive()
    t = vc.Tally()
    both = {k: v for k, v in rt.LEAVES.items() if len(v) == 2 and k in ("D", "B", "E", "F")}
    for op in rt.BINOPS:
        for ka, kb in itertools.product(both, repeat=2):
            res = {}
            for (sa, da), (sb, db) in itertools.product(both[ka], both[kb]):
                src = in_handler(f"({sa} {op} {sb});")
                r = vd.job({"id": 0, "source": src, "modes": ["generate"]})
                g = r["modes"]["generate"]
                if g.get("status") == "panic":
                    continue
                res[(da, db)] = vc.accepted(g, r.get("has_syntax_error"))
                t.inc("relation-programs")
            if len(set(res.values())) > 1:
                t.violation(f"acceptance-depends-on-literal-vs-dynamic:{op}:{ka},{kb}",
                            {"op": op, "kinds": [ka, kb], "accept": {str(k): v for k, v in res.items()},
                             "source": in_handler(f"({both[ka][0][0]} {op} {both[kb][0][0]});")})
    for op in rt.UNOPS:
        for k in both:
            res = {}
            for (s, d) in both[k]:
                src = in_handler(f"({op}{s});")
                g = vd.job({"id": 0, "source": src, "modes": ["generate"]})["modes"]["generate"]
                res[d] = vc.accepted(g)
                t.inc("relation-programs")
            if len(set(res.values())) > 1:
                t.violation(f"acceptance-depends-on-literal-vs-dynamic:{op}:{k}",
                            {"op": op, "kinds": [k], "accept": {str(a): b for a, b in res.items()},
                             "source": in_handler(f"({op}{both[k][0][0]});")})
    vd.close()
    return t


def main(tier, t0):
    vc.ensure_vdrive()
    tally = vc.merge_tallies(vc.run_sharded(shard_work, {"tier": tier}))
    tally.merge(const_dyn_relation(tier))
    c = tally.counts
    cov = {
        "evaluations": c.get("programs", 0) * 3 + c.get("relation-programs", 0),
        "distinct_nontrivial": len(tally.distinct),
        "rule": "distinct programs; expression table = every unary/binary/ternary/cast form over 24 typed leaf "
                "spellings (depth 1 complete, depth 2 on a reduced kind/operator set), statement table = "
                "single type-breaking edits of well-typed forms; each judged in all three modes",
        "exhaustive": True,
        "bound_completed": {"expression_depth": 2},
        "must_accept": c.get("verdict:ok", 0), "must_reject": c.get("verdict:reject", 0),
        "unspecified": c.get("verdict:unspec", 0),
        "unspecified_accepted": c.get("unspecified-accepted", 0),
        "unspecified_rejected": c.get("unspecified-rejected", 0),
        "rejected_by_syntax": c.get("rejected-by-syntax", 0),
        "const_vs_dynamic_programs": c.get("relation-programs", 0),
    }
    assumptions = [
        "typing table = DESIGN.md Appendix C (lib/reftypes.py); cells the documentation does not settle are "
        "counted, never judged",
        "MUST_REJECT = error diagnostic in every mode and not accepted; MUST_ACCEPT = accepted in generate "
        "mode with no diagnostic at all",
    ]
    return vc.finish("C05", tier, LEVEL, tally, cov, assumptions, t0)


def replay(path):
    vc.ensure_vdrive()
    r = json.load(open(path))
    case = r["case"]
    vd = vc.VDrive()
    t = vc.Tally()
    judge(t, vd, 0, case.get("family", ""), case["source"], case.get("expected", rt.UNS), "replay")
    vd.close()
    if t.violations:
        print(f"VIOLATION property=C05 replay={path}")
        for sig, c in t.violations:
            print("  ", sig, json.dumps(c.get("diagnostics"))[:300])
        return 1
    print("replay: holds now")
    return 0
