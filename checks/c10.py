"""C10  Object names are unique and every reference resolves, across both outputs.

The name generator is a small state machine (per-prefix counters + the set of user ids) driven
by operation sequences = pre-order object lists. All sequences of <= 3 (thorough: 4) children
under a fixed root over (class, id) options chosen to look like generated names (QLabel,
QLabel1, QWidget, Widget1, QWidget1, QAction x none/label/label1/label2/widget1/action1), plus
nested variants and reference documents (buddy, actions lists, dynamic bindings whose receiver
is an anonymous object).
"""
import itertools
import json
import re

import qml
import uiread
import vcommon as vc

LEVEL = "exploration"

CLASSES = ["QLabel", "QLabel1", "QWidget", "Widget1", "QWidget1", "QAction"]
IDS = [None, "label", "label1", "label2", "widget1", "action1"]
CLASSES_T = ["QLabel", "QLabel1", "Widget1", "QAction"]
IDS_T = [None, "label1", "label2", "widget1"]


def variable_name_for_type(type_name):
    """Rule re-stated from the documentation of the naming convention (uic's Driver::qtify):
    strip a leading Q/K followed by a letter, lower-case the leading run of capitals up to and
    including the first non-capital."""
    s = type_name
    if len(s) > 1 and s[0] in "QK" and s[1].isascii() and s[1].isalpha():
        s = s[1:]
    out = []
    i = 0
    while i < len(s):
        ch = s[i]
        out.append(ch.lower() if ch.isascii() else ch)
        i += 1
        if not (ch.isascii() and ch.isupper()):
            break
    return "".join(out) + s[i:]


NO_ROOT_ID = "<root has its default id>"


def build(seq, nest, root_id=NO_ROOT_ID):
    """seq: [(class, id)], nest: 'flat' | 'chain' (each child inside the previous widget).  root_id: the id of the
    root object is one of the alphabet too (or none at all); the dynamic bindings then read a helper object."""
    src_obj = "root" if root_id == NO_ROOT_ID else "zsrc"
    root = qml.Obj("QWidget", "root" if root_id == NO_ROOT_ID else root_id)
    root.add(qml.B("toolTip", '"obj-root"'))
    parent = root
    objs = []
    for k, (cls, oid) in enumerate(seq):
        o = qml.Obj(cls, oid)
        o.add(qml.B("toolTip", f'"obj{k}"'))
        o.add(qml.B("enabled", f'{src_obj}.windowTitle == "obj{k}"'))
        parent.add(o)
        objs.append(o)
        if nest == "chain" and cls != "QAction":
            parent = o
    if root_id != NO_ROOT_ID:
        root.add(qml.Obj("QCheckBox", "zsrc"))
    return root, objs


RECV_RE = re.compile(r"this->ui_->(\w+)->setEnabled\(this->(eval\w+)\(\)\)")


def header_receivers(header):
    """{marker 'objK': receiver name} recovered from the header text."""
    out = {}
    for m in RECV_RE.finditer(header):
        name, fn = m.group(1), m.group(2)
        body = re.search(r"\b" + re.escape(fn) + r"\(\)\s*\{(.*?)\n    \}", header, re.S)
        if not body:
            continue
        mk = re.search(r'"(obj\d+)"', body.group(1))
        if mk:
            out.setdefault(mk.group(1), []).append(name)
    return out


def judge(t, vd, cid, seq, nest, warn=False, root_id=NO_ROOT_ID):
    root, objs = build(seq, nest, root_id)
    # warn: the same document with a versioned import (a warning beside whatever else is reported)
    src = qml.render(root, oneline=True, imports=("qmluic.QtWidgets 6.2",)) if warn else qml.render(root, oneline=True)
    case = {"id": cid, "source": src, "seq": [list(x) for x in seq], "nest": nest, "warn": warn}
    if root_id != NO_ROOT_ID:
        case["root_id"] = root_id
    r = vd.job({"id": cid, "source": src, "modes": ["generate"]})
    if r.get("crashed") or r.get("timeout") or "modes" not in r or \
            r["modes"]["generate"].get("status") == "panic":
        t.lost.append({"id": cid})
        return
    g = r["modes"]["generate"]
    t.inc("documents")
    t.distinct.add((tuple(seq), nest) if root_id == NO_ROOT_ID else (tuple(seq), nest, root_id))
    ids = (["root"] if root_id == NO_ROOT_ID else ["zsrc"] + ([root_id] if root_id else [])) + [i for (_c, i) in seq if i is not None]
    dup = len(set(ids)) != len(ids)
    acc = vc.accepted(g, r.get("has_syntax_error"))
    if dup:
        t.inc("expected_reject")
        if acc:
            t.violation("duplicate-id-accepted", case)
        return
    t.inc("expected_accept")
    if not acc:
        t.violation("rejected-a-valid-document", dict(case, diagnostics=g.get("diagnostics")))
        return
    ui = uiread.parse(g["ui"])
    named = uiread.named_objects(ui)
    names = [n for (_k, n, _c, _e) in named]
    if len(set(names)) != len(names):
        d = sorted({n for n in names if names.count(n) > 1})
        # which kinds collide? id/generated or generated/generated
        kinds = []
        for n in d:
            kinds.append("id/generated" if n in ids else "generated/generated")
        prefixes = {variable_name_for_type(c) for (c, i) in seq if i is None}
        feat = kinds[0]
        if feat == "generated/generated" and len(prefixes) > 1:
            feat += ":across-prefixes"
        t.violation(f"duplicate-name:{feat}", dict(case, duplicates=d, names=names))
        return
    # locate each QML object by its marker
    by_marker = {}
    for (_k, n, c, e) in named:
        p = uiread.prop(e, "toolTip")
        if p is not None:
            by_marker[p.children[0].text] = (n, c)
    for k, (cls, oid) in enumerate(seq):
        t.inc("objects_checked")
        got = by_marker.get(f"obj{k}")
        if got is None:
            t.violation("object-missing-in-ui", dict(case, object=k))
            continue
        name, xcls = got
        if oid is not None:
            if name != oid:
                t.violation("id-not-used-verbatim", dict(case, object=k, got=name))
        else:
            prefix = variable_name_for_type(cls)
            suffix = name[len(prefix):] if name.startswith(prefix) else None
            if suffix is None or not (suffix == "" or (suffix.isdigit() and suffix[0] != "0")):
                t.violation("generated-name-not-derived-from-class",
                            dict(case, object=k, got=name, prefix=prefix))
            if name in ids:
                t.violation("duplicate-name:id/generated", dict(case, object=k, got=name))
    # header receivers denote the object that carries the same marker
    recv = header_receivers(g["header"] or "")
    for k, (cls, oid) in enumerate(seq):
        want = by_marker.get(f"obj{k}")
        got = recv.get(f"obj{k}")
        t.inc("references_checked")
        if want is None:
            continue
        if not got or len(got) != 1:
            t.violation("header-reference-missing", dict(case, object=k, got=got))
        elif got[0] != want[0]:
            t.violation("header-reference-denotes-another-object",
                        dict(case, object=k, header_name=got[0], ui_name=want[0]))
        elif names.count(got[0]) != 1:
            t.violation("header-reference-ambiguous", dict(case, object=k, name=got[0]))


REF_DOCS = [
    # (id, source, checks) - references by buddy / actions / menuAction
    ("buddy-anon-neighbours", """import qmluic.QtWidgets
QWidget { id: root
  QLabel { buddy: edit }
  QLineEdit { }
  QLineEdit { id: edit }
  QLabel { buddy: lineEdit1 }
  QLineEdit { id: lineEdit1 }
}
""", {"buddy": ["edit", "lineEdit1"]}),
    ("actions-mixed", """import qmluic.QtWidgets
QMainWindow { id: root
  QAction { id: action }
  QAction { text: "anon" }
  QAction { id: sep; separator: true }
  QMenu { id: menu; actions: [action, sep, action1x, sub.menuAction()]
    QAction { id: action1x }
    QMenu { id: sub }
  }
  QMenu { }
}
""", {"addaction": {"menu": ["action", "separator", "action1x", "sub"]}}),
]


def judge_refs(t, vd):
    for cid, src, checks in REF_DOCS:
        r = vd.job({"id": cid, "source": src, "modes": ["generate"]})
        g = r["modes"]["generate"]
        case = {"id": cid, "source": src}
        t.inc("documents")
        t.distinct.add(cid)
        if not vc.accepted(g, r.get("has_syntax_error")):
            t.violation("rejected-a-valid-document", dict(case, diagnostics=g.get("diagnostics")))
            continue
        ui = uiread.parse(g["ui"])
        named = uiread.named_objects(ui)
        names = [n for (_k, n, _c, _e) in named]
        if len(set(names)) != len(names):
            t.violation("duplicate-name:reference-doc", dict(case, names=names))
        buds = [e.children[0].text for (_k, _n, _c, el) in named for e in el.findall("property")
                if e.attrs.get("name") == "buddy"]
        for b in buds:
            t.inc("references_checked")
            if names.count(b) != 1:
                t.violation("buddy-does-not-resolve", dict(case, buddy=b, names=names))
        if "buddy" in checks and buds != checks["buddy"]:
            t.violation("buddy-value", dict(case, got=buds))
        for (_k, n, _c, el) in named:
            for a in el.findall("addaction"):
                t.inc("references_checked")
                an = a.attrs.get("name")
                if an == "separator":
                    continue
                tgt = [x for x in named if x[1] == an]
                if len(tgt) != 1 or not (tgt[0][0] == "action" or tgt[0][2] == "QMenu"):
                    t.violation("addaction-does-not-resolve", dict(case, name=an))
        for w, want in checks.get("addaction", {}).items():
            e = uiread.find_object(ui, w)
            got = [a.attrs.get("name") for a in e.findall("addaction")]
            if got != want:
                t.violation("addaction-list", dict(case, widget=w, got=got))


# --------------------------------------------------------------------------- cross-reference matrix
# every kind of referenced object x every kind of reference site (+ every pair of targets in one
# document): if the document is accepted, each ui_-><name> of the header and each name-valued
# reference of the .ui must denote exactly one declared object.

XTARGETS = [
    # (tag, object text with id X, property read through it)
    ("widget", "QLineEdit { id: X }", "X.text"),
    ("layout", "QWidget { QVBoxLayout { id: X } }", "X.spacing"),
    ("layout-child", "QWidget { QVBoxLayout { QLabel { id: X } } }", "X.text"),
    ("spacer", "QWidget { QVBoxLayout { QSpacerItem { id: X } } }", "X.orientation"),
    ("action", "QAction { id: X; text: \"a\" }", "X.text"),
    ("action-plain", "QAction { id: X }", "X.text"),
    ("separator-static", "QAction { id: X; separator: true }", "X.text"),
    ("separator-with-text", "QAction { id: X; separator: true; text: \"s\" }", "X.text"),
    ("separator-false", "QAction { id: X; separator: false }", "X.text"),
    ("menu", "QMenu { id: X }", "X.title"),
    ("tab-page", "QTabWidget { QWidget { id: X; QTabWidget.title: \"t\" } }", "X.toolTip"),
    ("custom", "Widget1 { id: X }", "X.toolTip"),
    ("in-menu-action", "QMenu { QAction { id: X } }", "X.text"),
    ("in-menu-separator", "QMenu { QAction { id: X; separator: true } }", "X.text"),
    # objects written where no object can be declared (under an action, under a spacer): the document must be
    # rejected; if it is accepted all the same, every reference still has to resolve
    ("under-action", "QAction { QAction { id: X } }", "X.text"),
    ("under-action-widget", "QAction { QLineEdit { id: X } }", "X.text"),
    ("under-action-second", "QAction { QAction { } QAction { id: X } }", "X.text"),
    ("under-menu-action", "QMenu { QAction { QAction { id: X } } }", "X.text"),
    ("under-spacer", "QWidget { QVBoxLayout { QSpacerItem { QLabel { id: X } } } }", "X.text"),
]
WIDGET_TAGS = {"widget", "layout-child", "menu", "tab-page", "custom", "under-action-widget", "under-spacer"}
ACTION_TAGS = {"action", "action-plain", "separator-static", "separator-with-text", "separator-false", "in-menu-action",
               "in-menu-separator", "under-action", "under-action-second", "under-menu-action"}
# sites whose object-valued slot takes a QWidget* / a QAction*: a target of another class must not be accepted there
SITE_WANTS = {"buddy": WIDGET_TAGS, "buddy-dynamic": WIDGET_TAGS, "buddy-block-null-first": WIDGET_TAGS,
              "buddy-block-null-last": WIDGET_TAGS, "buddy-block-null-middle": WIDGET_TAGS, "buddy-ternary-null-first": WIDGET_TAGS,
              "buddy-ternary-null-last": WIDGET_TAGS, "buddy-if-completion": WIDGET_TAGS, "buddy-switch": WIDGET_TAGS,
              "buddy-three-returns-middle": WIDGET_TAGS, "buddy-three-returns-last": WIDGET_TAGS, "buddy-four-returns-second": WIDGET_TAGS,
              "actions-list": ACTION_TAGS, "actions-list-dynamic": ACTION_TAGS, "menu-action": {"menu"}}
XSITES = [
    ("binding-read", lambda x, rd: f"QLabel {{ text: {rd} as string }}" if False else f"QLabel {{ toolTip: {rd.replace('X', x)} }}"),
    ("binding-read-mixed", lambda x, rd: f"QLabel {{ toolTip: cb.checked ? {rd.replace('X', x)} : \"n\" }}"),
    ("handler-read", lambda x, rd: f"QPushButton {{ onClicked: sink.toolTip = {rd.replace('X', x)} }}"),
    ("handler-write", lambda x, rd: f"QPushButton {{ onClicked: {{ {rd.replace('X', x)} = sink.toolTip }} }}"),
    ("pointer-compare", lambda x, rd: f"QLabel {{ visible: {x} != null }}"),
    ("buddy", lambda x, rd: f"QLabel {{ buddy: {x} }}"),
    ("buddy-dynamic", lambda x, rd: f"QLabel {{ buddy: cb.checked ? {x} : sink }}"),
    ("actions-list", lambda x, rd: f"QToolButton {{ actions: [{x}] }}"),
    ("menu-action", lambda x, rd: f"QToolButton {{ actions: [{x}.menuAction()] }}"),
    # object-valued bindings written with several exits, null in every position
    ("buddy-block-null-first", lambda x, rd: f"QLabel {{ buddy: {{ if (cb.checked) {{ return null }} else {{ return {x} }} }} }}"),
    ("buddy-block-null-last", lambda x, rd: f"QLabel {{ buddy: {{ if (cb.checked) {{ return {x} }} else {{ return null }} }} }}"),
    ("buddy-block-null-middle", lambda x, rd: f"QLabel {{ buddy: {{ if (cb.checked) return {x}; if (!cb.checked) return null; return {x} }} }}"),
    ("buddy-three-returns-middle", lambda x, rd: f"QLabel {{ buddy: {{ if (cb.checked) return sink; if (!cb.checked) return {x}; return sink }} }}"),
    ("buddy-three-returns-last", lambda x, rd: f"QLabel {{ buddy: {{ if (cb.checked) return sink; if (!cb.checked) return sink; return {x} }} }}"),
    ("buddy-four-returns-second", lambda x, rd: f"QLabel {{ buddy: {{ if (cb.checked) return sink; if (!cb.checked) return {x}; if (cb.checked) return sink; return sink }} }}"),
    ("buddy-ternary-null-first", lambda x, rd: f"QLabel {{ buddy: cb.checked ? null : {x} }}"),
    ("buddy-ternary-null-last", lambda x, rd: f"QLabel {{ buddy: cb.checked ? {x} : null }}"),
    ("buddy-if-completion", lambda x, rd: f"QLabel {{ buddy: {{ if (cb.checked) null; else {x} }} }}"),
    ("buddy-switch", lambda x, rd: f"QLabel {{ buddy: {{ switch (cb.checked) {{ case true: return null; default: return {x} }} }} }}"),
]


def xref_docs():
    head = "import qmluic.QtWidgets\nQWidget { id: root\n  QCheckBox { id: cb }\n  QLabel { id: sink }\n"
    for (ttag, tobj, rd) in XTARGETS:
        for (stag, site) in XSITES:
            yield (f"xref/{ttag}/{stag}", [ttag], head + "  " + tobj.replace("X", "t0") + "\n  " + site("t0", rd) + "\n}\n")
    # pairs of targets, one read site each (a dropped object must not disturb a sibling's reference)
    for (a, b) in itertools.permutations(XTARGETS, 2):
        src = head + "  " + a[1].replace("X", "t0") + "\n  " + b[1].replace("X", "t1") + "\n  " + \
            XSITES[0][1]("t0", a[2]) + "\n  " + XSITES[2][1]("t1", b[2]) + "\n}\n"
        yield (f"xref2/{a[0]}+{b[0]}", [a[0], b[0]], src)


HDR_REF_RE = re.compile(r"this->ui_->(\w+)")


def judge_xref(t, vd, cid, ttags, src):
    r = vd.job({"id": cid, "source": src, "modes": ["generate"]})
    if r.get("crashed") or r.get("timeout") or "modes" not in r or r["modes"]["generate"].get("status") == "panic":
        t.lost.append({"id": cid})
        return
    g = r["modes"]["generate"]
    t.inc("documents")
    t.inc("xref_documents")
    t.distinct.add(cid)
    case = {"id": cid, "xref": ttags, "source": src}
    if r.get("has_syntax_error"):
        raise vc.MachineryError("xref document does not parse:\n" + src)
    if not vc.accepted(g, False):
        t.inc("xref_rejected")      # ill-typed combination (buddy: action, ...): nothing to resolve
        return
    t.inc("xref_accepted")
    if len(ttags) == 1 and ttags[0].startswith("under-"):
        t.violation("accepted-an-object-declared-under-a-leaf", case)
        return
    stag = cid.split("/")[-1]
    if len(ttags) == 1 and stag in SITE_WANTS and ttags[0] not in SITE_WANTS[stag]:
        t.violation("reference-of-an-incompatible-class-accepted", case)
        return
    ui = uiread.parse(g["ui"])
    named = uiread.named_objects(ui)
    names = [n for (_k, n, _c, _e) in named]
    if len(set(names)) != len(names):
        t.violation("duplicate-name:reference-doc", dict(case, names=names))
    for name in sorted(set(HDR_REF_RE.findall(g["header"] or ""))):
        t.inc("references_checked")
        if names.count(name) != 1:
            # which target vanished?
            feat = "other"
            for k, tt in enumerate(ttags):
                if name == f"t{k}":
                    feat = "static-separator-action" if tt in ("separator-static", "in-menu-separator") else tt
            t.violation(f"header-reference-to-undeclared-object:{feat}", dict(case, name=name, declared=names))
    for (_k, n, _c, el) in named:
        for e in el.findall("property"):
            if e.attrs.get("name") == "buddy":
                t.inc("references_checked")
                if names.count(e.children[0].text) != 1:
                    t.violation("buddy-does-not-resolve", dict(case, buddy=e.children[0].text))
        for a in el.findall("addaction"):
            t.inc("references_checked")
            an = a.attrs.get("name")
            if an != "separator" and names.count(an) != 1:
                t.violation("addaction-does-not-resolve", dict(case, name=an))


def sequences(tier):
    for n in range(0, 4):
        for seq in itertools.product(list(itertools.product(CLASSES, IDS)), repeat=n):
            yield (seq, "flat")
    opts = list(itertools.product(CLASSES_T, IDS_T))
    for n in range(1, 4):
        for seq in itertools.product(opts, repeat=n):
            yield (seq, "chain")
    if tier == "thorough":
        for seq in itertools.product(opts, repeat=4):
            yield (seq, "flat")
        for seq in itertools.product(opts, repeat=4):
            yield (seq, "chain")


def documents(tier, for_c14=False):
    for k, (seq, nest) in enumerate(sequences("quick")):
        if k % (41 if for_c14 else 1):
            continue
        root, _ = build(seq, nest)
        yield (f"names/{k}", qml.render(root, oneline=True))


def shard_work(shard, nshards, payload):
    vd = vc.worker_vdrive()
    t = vc.Tally()
    for k, (seq, nest) in enumerate(sequences(payload["tier"])):
        if k % nshards != shard:
            continue
        judge(t, vd, f"names/{k}", seq, nest)
        ids_ = [i for (_c, i) in seq if i is not None]
        if len(set(ids_)) != len(ids_) or k % 7 == 0:
            judge(t, vd, f"names+warning/{k}", seq, nest, warn=True)
        if len(seq) <= 2:
            # the root takes part: its id is one of the alphabet (so it can repeat a child's), or it has none (so its
            # generated name competes with the children's)
            for rid in IDS:
                judge(t, vd, f"names+root/{k}/{rid}", seq, nest, root_id=rid)
        if k % 9001 == 0:
            t.sample({"seq": [list(x) for x in seq], "nest": nest})
    if shard == 0:
        judge_refs(t, vd)
    for k, (cid, ttags, src) in enumerate(xref_docs()):
        if k % nshards == shard:
            judge_xref(t, vd, cid, ttags, src)
    return t


def main(tier, t0):
    vc.ensure_vdrive()
    tally = vc.merge_tallies(vc.run_sharded(shard_work, {"tier": tier}))
    c = tally.counts
    cov = {
        "evaluations": c.get("documents", 0),
        "distinct_nontrivial": len(tally.distinct),
        "rule": "distinct (child sequence, nesting) pairs; children = all sequences up to the bound over "
                "6 classes x 6 id choices (quick flat), 4 x 4 for chains / length 4",
        "exhaustive": True,
        "bound_completed": {"children": 4 if tier == "thorough" else 3},
        "expected_accept": c.get("expected_accept", 0), "expected_reject": c.get("expected_reject", 0),
        "objects_checked": c.get("objects_checked", 0),
        "references_checked": c.get("references_checked", 0),
        "cross_reference_matrix": {"documents": c.get("xref_documents", 0), "accepted": c.get("xref_accepted", 0),
                                   "rejected_as_ill_typed": c.get("xref_rejected", 0),
                                   "targets": [x[0] for x in XTARGETS], "sites": [x[0] for x in XSITES]},
    }
    assumptions = [
        "generated name = variable_name_for_type(class) + optional decimal suffix (rule restated in the check)",
        "header references are recovered textually (ui_-><name>->setEnabled(eval..)) and matched to the "
        ".ui object through a marker string; the compile-level check of references is part of C16",
        "'separator' is the reserved addaction pseudo-name",
    ]
    return vc.finish("C10", tier, LEVEL, tally, cov, assumptions, t0)


def replay(path):
    vc.ensure_vdrive()
    r = json.load(open(path))
    case = r["case"]
    vd = vc.VDrive()
    t = vc.Tally()
    if "xref" in case:
        judge_xref(t, vd, case["id"], case["xref"], case["source"])
    elif "seq" in case:
        judge(t, vd, 0, [tuple(x) for x in case["seq"]], case["nest"], case.get("warn", False), case.get("root_id", NO_ROOT_ID))
    else:
        judge_refs(t, vd)
    vd.close()
    if t.violations:
        print(f"VIOLATION property=C10 replay={path}")
        for sig, c in t.violations:
            print("  ", sig, c.get("duplicates") or "")
        return 1
    print("replay: holds now")
    return 0
