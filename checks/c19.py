"""C19  Colour strings are read the way Qt reads them.

Part 1 (vdrive `color`): exhaustive sweeps of Color::from_str against an oracle written from the
statement; keyword table from fixtures/svg_colors.json (cross-checked against X11 rgb.txt).
Part 2: end to end through the .ui for every keyword and representatives of every form:
<color alpha=..> with red/green/blue children, opaque => alpha 255, brush wrapping, rejects
carry a diagnostic inside the binding.
"""
import json
import os
import re
import subprocess

import uiread
import vcommon as vc

LEVEL = "exploration"
TABLE = os.path.join(vc.VERIF, "fixtures", "svg_colors.json")

# X11 names whose SVG/CSS value differs from rgb.txt (documented exceptions)
X11_EXCEPTIONS = {"gray", "grey", "green", "maroon", "purple"}


def crosscheck_table(table):
    """Guards the oracle's keyword table against typos: every keyword that rgb.txt also lists
    (other than the documented exceptions) must agree. Returns (agreeing, disagreeing)."""
    agree, bad = 0, []
    for p in ("/etc/X11/rgb.txt", "/usr/share/X11/rgb.txt"):
        if os.path.exists(p):
            x11 = {}
            for line in open(p, encoding="latin-1"):
                m = re.match(r"\s*(\d+)\s+(\d+)\s+(\d+)\s+(.+?)\s*$", line)
                if m:
                    x11[m.group(4).replace(" ", "").lower()] = [int(m.group(i)) for i in (1, 2, 3)]
            for k, v in table.items():
                if k in x11 and k not in X11_EXCEPTIONS:
                    if x11[k] == v:
                        agree += 1
                    else:
                        bad.append((k, v, x11[k]))
            return agree, bad, p
    return 0, [], None


def expected(s, table):
    m = re.fullmatch(r"#([0-9a-fA-F]+)", s)
    if s.startswith("#"):
        if not m:
            return None
        h = m.group(1)
        d = [int(c, 16) for c in h]
        if len(h) == 3:
            return (d[0] * 17, d[1] * 17, d[2] * 17, 255)
        if len(h) == 4:
            return (d[1] * 17, d[2] * 17, d[3] * 17, d[0] * 17)
        if len(h) == 6:
            return (d[0] * 16 + d[1], d[2] * 16 + d[3], d[4] * 16 + d[5], 255)
        if len(h) == 8:
            return (d[2] * 16 + d[3], d[4] * 16 + d[5], d[6] * 16 + d[7], d[0] * 16 + d[1])
        return None
    if not s.isascii():
        return None
    low = s.lower()
    if low == "transparent":
        return (0, 0, 0, 0)
    if low in table:
        return tuple(table[low]) + (255,)
    return None


def qml_str(s):
    out = []
    for ch in s:
        if ch in '"\\':
            out.append("\\" + ch)
        elif ch == "\n":
            out.append("\\n")
        elif ch == "\t":
            out.append("\\t")
        elif ord(ch) < 0x20:
            out.append("\\x%02x" % ord(ch))
        else:
            out.append(ch)
    return '"' + "".join(out) + '"'


def read_color(e):
    """<color alpha=A><red/><green/><blue/></color> -> (r,g,b,a) or raises."""
    if e.tag != "color":
        raise ValueError(f"expected <color>, got <{e.tag}>")
    kids = {c.tag: c.text for c in e.children}
    if set(kids) != {"red", "green", "blue"} or len(e.children) != 3:
        raise ValueError(f"colour children {sorted(kids)}")
    a = e.attrs.get("alpha")
    if a is None:
        raise ValueError("no alpha attribute")
    return (int(kids["red"]), int(kids["green"]), int(kids["blue"]), int(a))


def end_to_end(shard, nshards, payload):
    table = payload["table"]
    strings = payload["strings"]
    vd = vc.worker_vdrive()
    t = vc.Tally()
    for i, item in enumerate(strings):
        if i % nshards != shard:
            continue
        s, sink = item[0], item[1]
        form = item[2] if len(item) > 2 else None      # the colour string written as an expression that denotes it
        lit = form if form is not None else qml_str(s)
        if sink == "color":
            body = f"QColorDialog {{ currentColor: {lit} }}"
        elif sink == "brush":
            body = f"QGraphicsView {{ backgroundBrush: {lit} }}"
        else:
            body = f"QWidget {{ palette.window: {lit} }}"
        src = "import qmluic.QtWidgets\n" + body + "\n"
        r = vd.translate(src, modes=("generate",))
        case = {"kind": "e2e", "string": s, "sink": sink, "source": src}
        if form is not None:
            case["form"] = form
        t.inc("e2e_documents")
        if r.get("crashed") or r.get("timeout") or r["modes"]["generate"].get("status") == "panic":
            t.lost.append({"source": src, "result": {k: r.get(k) for k in ("crashed", "timeout")}})
            continue
        g = r["modes"]["generate"]
        exp = expected(s, table) if s is not None else None
        t.distinct.add((sink, "accept" if exp else "reject", len(s or ""), (s or "")[:1] == "#") if form is None else (sink, form))
        if exp is None:
            t.inc("e2e_expected_reject")
            errs = [d for d in g["diagnostics"] if d["kind"] == "error"]
            if vc.accepted(g) or not errs:
                t.violation(f"e2e:{sink}:accepted-a-string-that-is-not-a-colour", case)
                continue
            lo = src.index(lit)
            if form is None and not any(lo <= d["s"] and d["e"] <= lo + len(lit.encode()) + (len(src[:lo].encode()) - lo)
                       or (src.encode().find(lit.encode()) <= d["s"] and d["e"] <= src.encode().find(lit.encode()) + len(lit.encode()))
                       for d in errs):
                t.inc("e2e_rejections_reported_elsewhere_than_on_the_string")     # the statement does not say where: observed, not judged
            continue
        t.inc("e2e_expected_accept")
        if not vc.accepted(g):
            if form is not None:
                t.inc("e2e_forms_not_folded")        # whether an expression form is a constant is C03/C05's matter
                continue
            t.violation(f"e2e:{sink}:rejected-a-valid-colour", dict(case, diagnostics=g["diagnostics"]))
            continue
        try:
            root = uiread.parse(g["ui"])
            w = root.find("widget")
            if sink == "color":
                val = uiread.prop(w, "currentColor").children[0]
                got = read_color(val)
            elif sink == "brush":
                b = uiread.prop(w, "backgroundBrush").children[0]
                if b.tag != "brush" or b.attrs.get("brushstyle") != "SolidPattern":
                    raise ValueError(f"brush wrapping: <{b.tag} {b.attrs}>")
                got = read_color(b.find("color"))
            else:
                pal = uiread.prop(w, "palette").children[0]
                got = None
                for grp in ("active", "inactive", "disabled"):
                    cr = [c for c in pal.find(grp).children if c.attrs.get("role") == "Window"]
                    b = cr[0].children[0]
                    if b.tag != "brush" or b.attrs.get("brushstyle") != "SolidPattern":
                        raise ValueError(f"brush wrapping: <{b.tag} {b.attrs}>")
                    c = read_color(b.find("color"))
                    if got is not None and c != got:
                        raise ValueError("colour groups disagree")
                    got = c
        except Exception as e:  # noqa
            t.violation(f"e2e:{sink}:malformed-colour-element", dict(case, error=str(e), ui=g["ui"]))
            continue
        if tuple(got) != tuple(exp):
            t.violation(f"e2e:{sink}:wrong-channels", dict(case, expected=exp, got=got))
        t.sample({"string": s, "sink": sink, "rgba": list(got)})
    return t


COLOUR_FORMS = [
    ("blue", '{ let c = "red"; c = "blue"; return c }'), ("nosuch", '{ let c = "red"; c = "nosuch"; return c }'),
    ("red", '{ let c = "nosuch"; c = "red"; return c }'), ("#0000ff", '{ let c = "#ff0000"; c = "#00ff00"; c = "#0000ff"; return c }'),
    ("red", '{ let c = "blue"; let d = "red"; c = d; return c }'), ("blue", '{ let c = "blue"; let d = c; c = "red"; return d }'),
    ("#fff", '"#" + "fff"'), ("red", '"re" + "d"'), ("#12345", '"#12" + "345"'), ("red", '{ return "red" }'),
    ("red", '{ if (true) { return "red" } return "blue" }'), ("blue", '{ if (false) { return "red" } return "blue" }'),
    ("red", 'true ? "red" : "blue"'), ("blue", 'false ? "red" : "blue"'), ("red", '("red")'), ("#80ff0000", '"#80" + "ff" + "0000"'),
    (None, 'qsTr("red")'), (None, 'qsTr("Transparent")'), (None, 'qsTr("#fff")'), (None, 'qsTr("blue") + ""'), (None, '"" + qsTr("black")'),
    (None, '1'), (None, 'true'), (None, '["red"]'), (None, 'null'),
]
CLI_COLOURS = ["#ffffff", "#000", "#80123abc", "red", "lightgoldenrodyellow", "#12345"]     # the last is not a colour


def cli_histories(shard, nshards, payload):
    """Every history of <= 3 edits of one colour literal, regenerated by the real command in one directory after
    each edit: the file on disk carries the colour of the last accepted edit, nothing of earlier ones."""
    import itertools
    import os
    table = payload["table"]
    t = vc.Tally()
    hists = [h for n in (1, 2, 3) for h in itertools.product(CLI_COLOURS, repeat=n)]
    with vc.scratch_dir("c19cli") as scratch:
        for k, hist in enumerate(hists):
            if k % nshards != shard:
                continue
            d = os.path.join(scratch, f"h{k}")
            os.makedirs(d)
            last = None
            for step, s in enumerate(hist):
                src = f"import qmluic.QtWidgets\nQColorDialog {{ currentColor: {qml_str(s)} }}\n"
                with open(os.path.join(d, "Pick.qml"), "w") as f:
                    f.write(src)
                p_ = subprocess.run([vc.QMLUIC_BIN, "generate-ui", "--foreign-types", vc.METATYPES, "Pick.qml"], cwd=d,
                                    stdout=subprocess.PIPE, stderr=subprocess.PIPE, timeout=60)
                t.inc("cli_runs")
                case = {"kind": "cli", "history": list(hist), "step": step, "string": s, "sink": "color", "source": src}
                exp = expected(s, table)
                if (p_.returncode == 0) != (exp is not None):
                    t.violation("cli:exit-status-differs-from-the-colour's-validity", dict(case, exit=p_.returncode))
                    break
                if exp is not None:
                    last = exp
                path = os.path.join(d, "pick.ui")
                if last is None:
                    if os.path.exists(path):
                        t.violation("cli:file-written-for-a-rejected-colour", case)
                    continue
                try:
                    got = read_color(uiread.prop(uiread.parse(open(path).read()).find("widget"), "currentColor").children[0])
                except Exception as e:  # noqa
                    t.violation("cli:malformed-colour-element-after-regeneration", dict(case, error=str(e)))
                    break
                if tuple(got) != tuple(last):
                    t.violation("cli:file-does-not-carry-the-last-accepted-colour", dict(case, expected=last, got=got))
                    break
            t.distinct.add(("cli",) + hist)
    return t


def main(tier, t0):
    vc.ensure_vdrive()
    vc.ensure_cli()
    table = json.load(open(TABLE))
    agree, bad, src = crosscheck_table(table)
    if bad:
        raise vc.MachineryError(f"oracle keyword table disagrees with {src}: {bad[:5]}")
    p = subprocess.run([vc.VDRIVE_BIN, "color", "--table", TABLE, "--tier", tier,
                        "--threads", str(vc.NPROC)], stdout=subprocess.PIPE, stderr=subprocess.PIPE,
                       text=True)
    if p.returncode != 0 or not p.stdout.strip():
        raise vc.MachineryError(f"color engine failed rc={p.returncode}: {p.stderr[-2000:]}")
    out = json.loads(p.stdout.strip().splitlines()[-1])
    tally = vc.Tally()
    for w in out["witnesses"]:
        exp, obs = w["expected"], w["observed"]
        if exp is None:
            what = "accepted-a-string-that-is-not-a-colour"
        elif obs is None:
            what = "rejected-a-valid-colour"
        else:
            what = "wrong-channels"
        tally.violation(f"parse:{w['class']}:{what}", dict(w, kind="parse"))
    # end to end
    strings = []
    for k in sorted(table):
        strings.append((k, "color"))
    for k in ["Red", "BLUE", "transparent", "Transparent", "lightGoldenRodYellow"]:
        strings += [(k, "color"), (k, "brush"), (k, "palette")]
    for s in ["#000", "#fff", "#f80", "#1234", "#0abc", "#f000", "#123abc", "#ABCDEF", "#80123abc",
              "#00000000", "#ff000000", "#FF123456", "#01020304", "#fFf", "#a1B2c3"]:
        strings += [(s, "color"), (s, "brush"), (s, "palette")]
    for s in ["", "#", "#1", "#12", "#12345", "#1234567", "#123456789", "#ggg", "#+12", "# 123",
              "red ", " red", "re d", "#wtf", "rgb(1,2,3)", "0", "#-123", "light blue", "reDé",
              "#12é", "transparent ", "#ffff ", "##fff", "KhaKi", "rebeccapurple"]:
        strings += [(s, "color"), (s, "brush")]
    # the same strings written as expressions that denote them (or as translatable strings, which denote no colour)
    for sink in ("color", "brush", "palette"):
        for s_, form in COLOUR_FORMS:
            strings.append((s_, sink, form))
    if tier == "thorough":
        for k in sorted(table):
            strings += [(k.upper(), "brush"), (k.capitalize(), "palette")]
        for a in range(0, 256, 5):
            strings.append(("#%02x102030" % a, "color"))
        for d in "0123456789abcdefABCDEF":
            strings += [("#" + d * 3, "color"), ("#" + d * 4, "brush")]
    rs = vc.run_sharded(end_to_end, {"table": table, "strings": strings})
    tally.merge(vc.merge_tallies(rs))
    tally.merge(vc.merge_tallies(vc.run_sharded(cli_histories, {"table": table})))
    total = sum(c["evaluated"] for c in out["classes"].values()) + len(strings)
    # distinct non-trivial: every enumerated string is distinct by construction; count classes
    # in which both verdicts or a large value range occurred
    cov = {
        "evaluations": total,
        "distinct_nontrivial": sum(c["evaluated"] for c in out["classes"].values()),
        "rule": "strings enumerated without repetition per class (every '#'+n digits over the stated "
                "alphabets, every keyword in every letter case, every string of length<=4/5 over a "
                "12-symbol hostile alphabet, boundary sets); each is parsed by the real "
                "Color::from_str and compared with the statement-derived oracle; end-to-end "
                "documents additionally read the emitted <color>/<brush>/<palette> elements",
        "exhaustive": True,
        "classes": out["classes"],
        "e2e_documents": len(strings),
        "cli_edit_histories": {"colours": CLI_COLOURS, "max_edits": 3, "runs_of_the_real_command": tally.counts.get("cli_runs", 0)},
        "e2e_counts": dict(tally.counts),
        "keyword_table": {"size": len(table), "agrees_with_rgb_txt_on": agree, "rgb_txt": src},
        "samples": (tally.samples[:4] + [{"class": k, **v} for k, v in list(out["classes"].items())[:2]]),
    }
    assumptions = [
        "the oracle is the property statement: #rgb #argb #rrggbb #aarrggbb (alpha first, short "
        "digits doubled), SVG 1.1 keywords case-insensitively (ASCII), 'transparent'; everything "
        "else must be rejected",
        "keyword table typed independently of lib/src/color.rs and cross-checked with X11 rgb.txt",
    ]
    return vc.finish("C19", tier, LEVEL, tally, cov, assumptions, t0)


def replay(path):
    vc.ensure_vdrive()
    table = json.load(open(TABLE))
    r = json.load(open(path))
    case = r["case"]
    if case.get("kind") == "cli":
        vc.ensure_cli()
        global CLI_COLOURS
        hist = tuple(case["history"])
        import itertools
        # replay exactly this history: find it in the enumeration
        hists = [h for n in (1, 2, 3) for h in itertools.product(CLI_COLOURS, repeat=n)]
        k = hists.index(hist)
        t = cli_histories(k, len(hists), {"table": table})
        if t.violations:
            print(f"VIOLATION property=C19 replay={path}")
            print("  ", t.violations[0][0])
            return 1
        print("replay: holds now")
        return 0
    if case.get("kind") == "e2e":
        t = end_to_end(0, 1, {"table": table, "strings": [(case["string"], case["sink"]) + ((case["form"],) if "form" in case else ())]})
        vc._worker_vd and vc._worker_vd.close()
        if t.violations:
            print(f"VIOLATION property=C19 replay={path}")
            print("  ", t.violations[0][0])
            return 1
        print("replay: holds now")
        return 0
    # parser-level witness: run the one string through a tiny document as well as report oracle
    s = case["input"]
    t = end_to_end(0, 1, {"table": table, "strings": [(s, "color")]})
    if t.violations:
        print(f"VIOLATION property=C19 replay={path}")
        print("  ", t.violations[0][0], "expected", expected(s, table))
        return 1
    print("replay: holds now")
    return 0
