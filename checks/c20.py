"""C20  Preview-mode error recovery is local to the faulty object.

Relational oracle between two runs in omit (preview) mode: a base document of the C11 tree family
(decorated with constant bindings, layout/tab attachments and a mix of ids and anonymous objects)
with one fault planted at one object (thorough: also every pair), against the same document
without the faulty binding / object. Faults: unknown property, ill-typed value, duplicate property
binding, unknown attached type, unknown object type, invalid object type.
"""
import itertools
import json
import re

import qml
import uiread
import vcommon as vc
from checks import c11

LEVEL = "exploration"

BINDING_FAULTS = ["unknown-property", "ill-typed-value", "duplicate-binding", "unknown-attached-type"]
POINTER_FAULTS = ["pointer-property:string", "pointer-property:number", "pointer-property:list", "pointer-property:unknown-id"]   # on QLabel.buddy
GROUP_DUP_FAULTS = ["duplicate-in-group:dotted-then-braces", "duplicate-in-group:braces-then-dotted",
                    "duplicate-in-group:within-braces", "duplicate-in-group:dotted-dotted"]
CALLBACK_FAULTS = ["callback-incompatible-parameter", "callback-surplus-parameter", "callback-unknown-signal",
                   "callback-ill-typed-body"]
TYPE_FAULTS = ["unknown-object-type", "invalid-object-type"]
# ill-typed values on the names qmluic reads itself instead of handing them to the generic property pass
PSEUDO_FAULTS = {"pseudo:rows": ("rows", '"three"'), "pseudo:columns": ("columns", '"three"'), "pseudo:flow": ("flow", "1"),
                 "pseudo:actions": ("actions", "1"), "pseudo:separator": ("separator", '"yes"'),
                 "pseudo:attached-row": ("QLayout.row", '"x"'), "pseudo:attached-row-stretch": ("QLayout.rowStretch", '"x"'),
                 "pseudo:attached-column-span": ("QLayout.columnSpan", '"x"'),
                 "pseudo:tab-title": ("QTabWidget.toolTip", "1"), "pseudo:contents-margins": ("contentsMargins.left", '"x"')}


def decorate(root):
    """Adds constant bindings / attachments; anonymises every second widget-like object.
    Returns {obj: marker}."""
    markers = {}
    k = [0]

    def rec(o, parent_kind, index):
        kind = c11.KINDS[o.tag][1]
        n = k[0]
        k[0] += 1
        mk = f"m{n}"
        if kind in ("widget", "menu", "action"):
            o.items.insert(0, qml.B("toolTip", f'"{mk}"'))
            markers[id(o)] = mk
            if n % 2 == 1:
                o.id = None
        if o.cls == "QLabel":
            o.add(qml.B("text", f'qsTr("text {n}")'))
        if kind == "layout":
            o.add(qml.B("spacing", str(3 + n)))
        if kind == "spacer":
            o.add(qml.B("orientation", "Qt.Vertical"))
        if kind == "menu":
            o.add(qml.B("title", f'"menu {n}"'))
        if parent_kind == "layout" and kind != "sep":
            pcls = None
            o.add(qml.B("QLayout.alignment", "Qt.AlignLeft"))
        if parent_kind == "tab" and kind in ("widget", "menu"):
            o.add(qml.B("QTabWidget.title", f'"page {n}"'))
        for i, c in enumerate(o.children):
            rec(c, "tab" if o.cls == "QTabWidget" else kind, i)

    rec(root, None, 0)
    return markers


def plantable(o, is_root, parent=None):
    kind = c11.KINDS[o.tag][1]
    fs = list(BINDING_FAULTS)
    if o.cls == "QGridLayout":
        fs += ["pseudo:rows", "pseudo:columns", "pseudo:flow"]
    if kind == "layout":
        fs += ["pseudo:contents-margins"]
    if kind in ("widget", "menu"):
        fs += ["pseudo:actions"]
    # (`separator: "yes"` on an action that has other properties is a dynamic-pass binding: its result type is checked
    #  by the pass preview mode does not run, see DESIGN 11.4 "observed, not a finding"; not planted)
    if parent is not None and parent.cls == "QGridLayout" and kind != "sep":
        fs += ["pseudo:attached-row", "pseudo:attached-row-stretch", "pseudo:attached-column-span"]
    if parent is not None and parent.cls == "QTabWidget" and kind in ("widget", "menu"):
        fs += ["pseudo:tab-title"]
    if kind not in ("spacer", "sep"):
        fs += CALLBACK_FAULTS          # every other kind is a QObject: objectNameChanged(QString) exists
    if kind in ("widget", "menu"):
        fs += GROUP_DUP_FAULTS          # every widget has a font
    if o.cls == "QLabel":
        fs += POINTER_FAULTS
    if not is_root:
        fs += TYPE_FAULTS
    return fs


def group_dup_items(fault):
    """-> (items kept by the reference, items only the faulted document has)"""
    first = qml.B("font.bold", "true")
    if fault.endswith("dotted-then-braces"):
        return [first], [qml.G("font", [qml.B("bold", "false")])]
    if fault.endswith("braces-then-dotted"):
        return [qml.G("font", [qml.B("bold", "true")])], [qml.B("font.bold", "false")]
    if fault.endswith("dotted-dotted"):
        return [first], [qml.B("font.bold", "false")]
    return [], [qml.G("font", [qml.B("bold", "true"), qml.B("bold", "false")])]


def plant(o, fault):
    """Mutates object `o` (a clone inside a cloned tree); returns the faulty node whose span
    the diagnostic must lie in ('binding' B or the Obj itself for type faults)."""
    kind = c11.KINDS[o.tag][1]
    if fault == "unknown-property":
        b = qml.B("zzUnknown", "1")
        o.add(b)
        return b
    if fault == "ill-typed-value":
        b = qml.B("orientation", "1") if kind == "spacer" else qml.B("objectName", "1")
        if kind == "spacer":
            o.items = [x for x in o.items if not (isinstance(x, qml.B) and x.name == "orientation")]
        o.add(b)
        return b
    if fault == "duplicate-binding":
        name = {"spacer": "orientation", "layout": "spacing", "sep": "separator"}.get(kind, "toolTip")
        val = {"spacer": "Qt.Horizontal", "layout": "9", "sep": "true"}.get(kind, '"dup"')
        b = qml.B(name, val)
        o.add(b)
        return b
    if fault in PSEUDO_FAULTS:
        b = qml.B(*PSEUDO_FAULTS[fault])
        o.add(b)
        return b
    if fault in POINTER_FAULTS:
        b = qml.B("buddy", {"string": '"edit"', "number": "1", "list": "[]", "unknown-id": "zzNoSuchId"}[fault.split(":")[1]])
        o.add(b)
        return b
    if fault in GROUP_DUP_FAULTS:
        keep, extra = group_dup_items(fault)
        for it in keep + extra:
            o.add(it)
        return extra[-1]
    if fault in CALLBACK_FAULTS:
        b = {"callback-incompatible-parameter": qml.B("onObjectNameChanged", "function(n: int) {}"),
             "callback-surplus-parameter": qml.B("onObjectNameChanged", "function(n: QString, m: int) {}"),
             "callback-unknown-signal": qml.B("onZzUnknown", "{ }"),
             "callback-ill-typed-body": qml.B("onObjectNameChanged", "{ let v: int = \"s\"; }")}[fault]
        o.add(b)
        return b
    if fault == "unknown-attached-type":
        b = qml.B("QFoo.bar", "1")
        o.add(b)
        return b
    if fault == "unknown-object-type":
        o.cls = "QNoSuchType"
        return o
    if fault == "invalid-object-type":
        o.cls = "QVariant"
        return o
    raise KeyError(fault)


def reference_of(root, target_path, fault):
    """The same document without the faulty binding / object."""
    ref = root.clone()
    o = ref
    parent = None
    for i in target_path:
        parent = o
        o = o.children[i]
    if fault in TYPE_FAULTS:
        parent.items = [x for x in parent.items if x is not o]
    elif fault == "ill-typed-value" and c11.KINDS[o.tag][1] == "spacer":
        o.items = [x for x in o.items if not (isinstance(x, qml.B) and x.name == "orientation")]
    elif fault in GROUP_DUP_FAULTS:
        keep, _extra = group_dup_items(fault)
        if fault.endswith("within-braces"):
            keep = [qml.G("font", [qml.B("bold", "true")])]
        for it in keep:
            o.add(it)       # the reference keeps the first of the two bindings; the faulted object may lose it
    return ref


def obj_at(root, path):
    o = root
    for i in path:
        o = o.children[i]
    return o


def paths(root):
    out = []

    def rec(o, p):
        out.append(p)
        for i, c in enumerate(o.children):
            rec(c, p + (i,))
    rec(root, ())
    return out


# --------------------------------------------------------------------------- tree comparison

NUM_RE = re.compile(r"\d+$")


def canon(e, ids, mask_generated):
    """Element -> nested tuple; generated names optionally reduced to their prefix."""
    attrs = dict(e.attrs)
    if mask_generated and "name" in attrs and e.tag in ("widget", "layout", "spacer", "action", "addaction") \
            and attrs["name"] not in ids:
        attrs["name"] = NUM_RE.sub("", attrs["name"]) + "#"
    kids = tuple(canon(c, ids, mask_generated) for c in e.children)
    text = e.text if not e.children else ""
    if mask_generated and e.tag == "cstring" and text not in ids:
        text = NUM_RE.sub("", text) + "#"
    return (e.tag, tuple(sorted(attrs.items())), text, kids)


OBJ_TAGS = ("widget", "layout", "spacer", "action", "item", "addaction")


def base_shapes(tier):
    kinds = ["W", "LB", "VB", "GR", "SP", "AC", "MN", "TW"]
    shapes = list(c11.shapes_depth2(["W", "MN", "TW"], 0)) and []
    for s in c11.shapes_depth2(["W", "TW", "MN"], 2):
        shapes.append(s)
    d3 = list(c11.shapes_depth3(["W"], ["W", "VB", "AC", "MN", "SP"], 2))
    shapes += d3[::(37 if tier == "quick" else 5)]
    extra = [("W", [("VB", [("LB", []), ("LB", []), ("SP", [])]), ("AC", []), ("MN", [("AC", [])])]),
             ("W", [("GR", [("LB", []), ("VO", []), ("VB", [("LB", [])])]), ("TW", [("W", []), ("W", [])])]),
             ("W", [("MB", [("MN", [("AC", []), ("SEP", []), ("MN", [("AC", [])])])])])]
    return extra + [s for s in shapes if s[0] in ("W", "TW", "MN")]


def cases(tier):
    """Yields (case id, base root, [(path, fault)...])."""
    k = 0
    for si, shape in enumerate(base_shapes(tier)):
        root = c11.build_tree(shape)
        try:
            c11.expected(root, None)
        except c11.Reject:
            continue
        decorate(root)
        ps = paths(root)
        singles = [(p, f) for p in ps for f in plantable(obj_at(root, p), p == (), obj_at(root, p[:-1]) if p else None)]
        for pf in singles:
            yield (f"f1/{si}/{k}", root, [pf])
            k += 1
        if tier == "thorough" and si % 9 == 0:
            for a, b in itertools.combinations(singles, 2):
                if a[0] == b[0]:
                    continue
                # a type fault removes the subtree: do not plant inside a removed subtree
                if any(f in TYPE_FAULTS and (q[:len(p)] == p) for (p, f), (q, _g) in ((a, b), (b, a))):
                    continue
                yield (f"f2/{si}/{k}", root, [a, b])
                k += 1


def render_pair(root, plants):
    faulted = root.clone()
    ref = root
    nodes = []
    # apply faults deepest-first on the clone; build the reference by removing them
    for p, f in plants:
        nodes.append((plant(obj_at(faulted, p), f), f, p))
    ref = root.clone()
    # deepest first, later siblings first: removing an object must not shift a path still to be used
    for p, f in sorted(plants, key=lambda x: (len(x[0]), tuple(x[0])), reverse=True):
        ref = reference_of(ref, p, f)
    src_f = qml.render(faulted)
    src_r = qml.render(ref)
    return faulted, ref, src_f, src_r, nodes


def documents(tier, for_c14=False):
    for k, (cid, root, plants) in enumerate(cases("quick")):
        if k % (9 if for_c14 else 1):
            continue
        _f, _r, src_f, _sr, _n = render_pair(root, plants)
        yield (cid, src_f)


def judge(t, vd, cid, root, plants):
    faulted, ref, src_f, src_r, nodes = render_pair(root, plants)
    case = {"id": cid, "source": src_f, "reference_source": src_r,
            "faults": [[list(p), f] for p, f in plants]}
    rf = vd.job({"id": cid, "source": src_f, "modes": ["omit"]})
    rr = vd.job({"id": cid + "/ref", "source": src_r, "modes": ["omit"]})
    if "modes" in rf and rf["modes"]["omit"].get("status") == "panic" and "modes" in rr and rr["modes"]["omit"].get("status") != "panic":
        # the faulted document brings the library down although its reference translates: no form at all
        t.inc("pairs")
        t.violation("no-form:panic-on-the-faulted-document:" + "+".join(sorted({f for _p, f in plants})),
                    dict(case, panic=rf["modes"]["omit"].get("panic")))
        return
    for r in (rf, rr):
        if r.get("crashed") or r.get("timeout") or "modes" not in r or \
                r["modes"]["omit"].get("status") == "panic":
            t.lost.append({"id": cid})
            return
    gf, gr = rf["modes"]["omit"], rr["modes"]["omit"]
    t.inc("pairs")
    for _p, f in plants:
        t.inc("fault:" + f)
    t.distinct.add(src_f)
    if rr.get("has_syntax_error") or rf.get("has_syntax_error"):
        raise vc.MachineryError("generator produced a syntax error:\n" + src_f)
    if gr.get("status") != "built" or any(d["kind"] == "error" for d in gr["diagnostics"]):
        raise vc.MachineryError("reference document is not clean:\n" + src_r + "\n" + json.dumps(gr.get("diagnostics")))
    # 1. a form is still produced
    if gf.get("status") != "built":
        t.violation("no-form-although-root-resolves", dict(case, diagnostics=gf.get("diagnostics")))
        return
    # 2. every planted error is reported, inside the faulty text
    errs = [d for d in gf["diagnostics"] if d["kind"] == "error"]
    for node, f, p in nodes:
        span = node.span
        if not any(qml.within((d["s"], d["e"]), span) for d in errs):
            t.violation(f"planted-error-not-reported:{f}", dict(case, fault=f, span=list(span), diagnostics=errs))
    # 3. locality
    uf, ur = uiread.parse(gf["ui"]), uiread.parse(gr["ui"])
    ids = {o.id for o in ref.walk() if o.id}
    type_fault = any(f in TYPE_FAULTS for _p, f in plants)
    faulted_names = set()
    for p, f in plants:
        if f in TYPE_FAULTS:
            continue
        o = obj_at(ref, _ref_path(plants, p))
        if o.id:
            faulted_names.add(o.id)
        else:
            mk = None
            for it in o.items:
                if isinstance(it, qml.B) and it.name == "toolTip":
                    mk = it.value.strip('"')
                    break
            for (_k, n, _c, e) in uiread.named_objects(ur):
                pp = uiread.prop(e, "toolTip")
                if pp is not None and pp.children[0].text == mk:
                    faulted_names.add(n)
    if type_fault:
        # exactly the subtree is absent; generated names may be renumbered
        cf = canon(uf, ids, True)
        cr = canon(ur, ids, True)
        if not faulted_names:
            if cf != cr:
                t.violation("type-fault:more-than-the-subtree-changed", dict(case, ui=gf["ui"], reference_ui=gr["ui"]))
            return
        # mixed pair: mask names then compare structurally with the binding-fault rule
        mask = lambda n: n if n in ids else NUM_RE.sub("", n) + "#"   # noqa
        for e in list(uf.iter()) + list(ur.iter()):
            if "name" in e.attrs and e.tag in ("widget", "layout", "spacer", "action", "addaction"):
                e.attrs["name"] = mask(e.attrs["name"])
        faulted_names = {mask(n) for n in faulted_names}
    d = _cmp(uf, ur, faulted_names, ids, "ui")
    if d and len(plants) == 1 and plants[0][1] == "duplicate-binding" and \
            c11.KINDS[obj_at(ref, plants[0][0]).tag][1] == "sep":
        # both `separator` bindings are dropped: the action has lost its own (only) property value and is
        # then an ordinary action - compare with the reference in which it is one
        ref2 = ref.clone()
        o2 = obj_at(ref2, plants[0][0])
        o2.items = [x for x in o2.items if not (isinstance(x, qml.B) and x.name == "separator")]
        r2 = vd.job({"id": cid + "/ref2", "source": qml.render(ref2), "modes": ["omit"]})["modes"]["omit"]
        if r2.get("status") == "built" and not _cmp(uf, uiread.parse(r2["ui"]), faulted_names | ({o2.id} if o2.id else set()), ids, "ui"):
            t.inc("separator_lost_its_own_value")
            d = None
    if d:
        kinds = "+".join(sorted({f for _p, f in plants}))
        on_sep = [f for p, f in plants if f not in TYPE_FAULTS and c11.KINDS[obj_at(ref, _ref_path(plants, p)).tag][1] == "sep"]
        if on_sep and "addaction" in d or (on_sep and "child objects" in d):
            kinds += ":static-separator-becomes-an-action"
        t.violation(f"non-local-change:{kinds}", dict(case, difference=d, ui=gf["ui"], reference_ui=gr["ui"]))


def _ref_path(plants, path):
    """Path of the same object in the reference tree (siblings removed by type faults shift it)."""
    removed = [p for p, f in plants if f in TYPE_FAULTS]
    out = []
    for depth, i in enumerate(path):
        prefix = path[:depth]
        shift = sum(1 for r in removed if len(r) == depth + 1 and r[:depth] == prefix and r[depth] < i)
        out.append(i - shift)
    return tuple(out)


def _cmp(ef, er, names, ids, path):
    if ef.tag != er.tag:
        return f"{path}: element <{ef.tag}> vs <{er.tag}>"
    here = f"{path}/{ef.tag}[{er.attrs.get('name', '')}]"
    if ef.attrs != er.attrs:
        return f"{here}: attributes {ef.attrs} vs {er.attrs}"
    is_faulted = er.tag in ("widget", "layout", "spacer", "action") and er.attrs.get("name") in names
    fk = [c for c in ef.children if c.tag in OBJ_TAGS]
    rk = [c for c in er.children if c.tag in OBJ_TAGS]
    fp = [c for c in ef.children if c.tag not in OBJ_TAGS]
    rp = [c for c in er.children if c.tag not in OBJ_TAGS]
    if is_faulted:
        rset = {(c.tag, c.attrs.get("name")): canon(c, ids, False) for c in rp}
        for c in fp:
            key = (c.tag, c.attrs.get("name"))
            if key not in rset:
                return f"{here}: faulted object gained <{c.tag} name={c.attrs.get('name')!r}>"
            if canon(c, ids, False) != rset[key]:
                return f"{here}: value of <{c.tag} name={c.attrs.get('name')!r}> changed in the faulted object"
    else:
        if [canon(c, ids, False) for c in fp] != [canon(c, ids, False) for c in rp]:
            return f"{here}: properties differ outside the faulted object"
    if is_faulted and len(fk) != len(rk):
        # the list of actions is a value of the faulted object itself (its `actions`): it may be lost with the
        # faulty binding, entry by entry; nothing may be gained and the objects proper stay
        fa = [c.attrs.get("name") for c in fk if c.tag == "addaction"]
        ra = [c.attrs.get("name") for c in rk if c.tag == "addaction"]
        it_ = iter(ra)
        if not all(any(x == y for y in it_) for x in fa):
            return f"{here}: faulted object gained or reordered <addaction> entries {fa} vs {ra}"
        fk = [c for c in fk if c.tag != "addaction"]
        rk = [c for c in rk if c.tag != "addaction"]
    if len(fk) != len(rk):
        return f"{here}: {len(fk)} child objects vs {len(rk)}"
    for a, b in zip(fk, rk):
        d = _cmp(a, b, names, ids, here)
        if d:
            return d
    return None


def extra_type_fault_cases(t, vd):
    """Type faults whose removed subtree is referenced from outside or contains the only instance
    of a custom component: the form must equal the one of the document without the subtree
    (nothing of the subtree may survive: no resolvable id, no <customwidgets> entry)."""
    import os
    tmpl = ("import qmluic.QtWidgets\nQWidget {{\n    id: root\n    QLabel {{ id: lab; text: \"l\"; buddy: {ref} }}\n"
            "    QLineEdit {{ id: outer }}\n{sub}    QLabel {{ text: \"tail\" }}\n}}\n")
    subs = {
        "self": "    {T} {{ id: gone; toolTip: \"g\" }}\n",
        "child": "    {T} {{ id: gone\n        QLineEdit {{ id: inner }}\n    }}\n",
        "grandchild": "    {T} {{\n        QVBoxLayout {{ QLineEdit {{ id: inner }} QLabel {{ }} }}\n    }}\n",
    }
    for bad in ("QNoSuchType", "QVariant"):
        for sname, sub in subs.items():
            for ref in ("outer", "gone", "inner"):
                if ref == "gone" and sname == "grandchild":
                    continue
                if ref == "inner" and sname == "self":
                    continue
                faulted = tmpl.format(ref=ref, sub=sub.format(T=bad))
                reference = tmpl.format(ref=ref, sub="")
                rf = vd.job({"id": 0, "source": faulted, "modes": ["omit"]})["modes"]["omit"]
                rr = vd.job({"id": 1, "source": reference, "modes": ["omit"]})["modes"]["omit"]
                t.inc("pairs")
                t.inc("fault:type-fault-with-outside-reference")
                t.distinct.add(faulted)
                case = {"id": f"extra/{bad}/{sname}/{ref}", "source": faulted, "reference_source": reference,
                        "faults": [[[], "type-fault-with-outside-reference"]]}
                if rf.get("status") != "built" or rr.get("status") != "built":
                    t.violation("no-form-although-root-resolves", case)
                    continue
                ids = {"root", "lab", "outer"}
                if canon(uiread.parse(rf["ui"]), ids, True) != canon(uiread.parse(rr["ui"]), ids, True):
                    t.violation("type-fault:something-of-the-removed-subtree-survived",
                                dict(case, ui=rf["ui"], reference_ui=rr["ui"]))
    # custom component instantiated only inside the removed subtree
    with vc.scratch_dir("c20") as d:
        with open(os.path.join(d, "Comp.qml"), "w") as f:
            f.write("import qmluic.QtWidgets\nQFrame { }\n")
        with open(os.path.join(d, "Other.qml"), "w") as f:
            f.write("import qmluic.QtWidgets\nQWidget { }\n")
        for bad in ("QNoSuchType", "QVariant"):
            for inner in ("Comp { }", "QVBoxLayout { Comp { } Other { } }", "QWidget { Comp { id: c1 } }"):
                for keep in ("", "    Other { }\n"):
                    faulted = f"import qmluic.QtWidgets\nQWidget {{\n    {bad} {{ {inner} }}\n{keep}    QLabel {{ }}\n}}\n"
                    reference = f"import qmluic.QtWidgets\nQWidget {{\n{keep}    QLabel {{ }}\n}}\n"
                    res = []
                    for name, text in (("Faulted.qml", faulted), ("Reference.qml", reference)):
                        with open(os.path.join(d, name), "w") as f:
                            f.write(text)
                    for name in ("Faulted.qml", "Reference.qml"):
                        r = vd.job({"id": name, "path": os.path.join(d, name), "modes": ["omit"],
                                    "type_name": "Doc"})
                        res.append(r["modes"]["omit"])
                    for name in ("Faulted.qml", "Reference.qml"):
                        os.remove(os.path.join(d, name))
                    t.inc("pairs")
                    t.inc("fault:type-fault-over-custom-component")
                    t.distinct.add(faulted)
                    case = {"id": f"extra/component/{bad}", "source": faulted, "reference_source": reference,
                            "faults": [[[], "type-fault-over-custom-component"]]}
                    if res[0].get("status") != "built" or res[1].get("status") != "built":
                        t.violation("no-form-although-root-resolves", case)
                        continue
                    a, b = uiread.parse(res[0]["ui"]), uiread.parse(res[1]["ui"])
                    # the two files have different type names: compare everything but <class>
                    for x in (a, b):
                        x.children = [c for c in x.children if c.tag != "class"]
                    if canon(a, set(), True) != canon(b, set(), True):
                        t.violation("type-fault:something-of-the-removed-subtree-survived",
                                    dict(case, ui=res[0]["ui"], reference_ui=res[1]["ui"]))


def shard_work(shard, nshards, payload):
    vd = vc.worker_vdrive()
    t = vc.Tally()
    for k, (cid, root, plants) in enumerate(cases(payload["tier"])):
        if k % nshards != shard:
            continue
        judge(t, vd, cid, root, plants)
        if k % 2500 == 0:
            t.sample({"id": cid, "faults": [[list(p), f] for p, f in plants],
                      "source": qml.render(root, oneline=True)[:300]})
    if shard == 0:
        extra_type_fault_cases(t, vd)
    return t


def main(tier, t0):
    vc.ensure_vdrive()
    tally = vc.merge_tallies(vc.run_sharded(shard_work, {"tier": tier}))
    c = tally.counts
    cov = {
        "evaluations": c.get("pairs", 0) * 2,
        "distinct_nontrivial": len(tally.distinct),
        "rule": "distinct faulted documents = base tree x fault kind x object position (bound 1; thorough "
                "adds pairs on every 9th base tree); each is compared with its fault-free reference",
        "exhaustive": True,
        "bound_completed": "bound 1 (single fault at every object)" + (" + bound 2 on a ninth of the base trees" if tier == "thorough" else ""),
        "faults": {k.split(":", 1)[1]: v for k, v in c.items() if k.startswith("fault:")},
        "pairs_compared": c.get("pairs", 0),
    }
    assumptions = [
        "not planted: duplicate `id:` bindings, duplicate *attached* bindings (dropping an explicit "
        "row/column necessarily moves the successors' cells), faults on separator actions (any extra "
        "binding turns a separator into a plain action)",
        "for type faults generated names are compared up to their numeric suffix",
    ]
    return vc.finish("C20", tier, LEVEL, tally, cov, assumptions, t0)


def replay(path):
    vc.ensure_vdrive()
    r = json.load(open(path))
    case = r["case"]
    vd = vc.VDrive()
    a = vd.job({"id": 0, "source": case["source"], "modes": ["omit"]})["modes"]["omit"]
    b = vd.job({"id": 1, "source": case["reference_source"], "modes": ["omit"]})["modes"]["omit"]
    vd.close()
    print("faulted diagnostics:", json.dumps(a.get("diagnostics"))[:600])
    if a.get("status") != "built":
        print(f"VIOLATION property=C20 replay={path}")
        return 1
    ids = set(re.findall(r"id: (\w+)", case["reference_source"]))
    cf, cr = canon(uiread.parse(a["ui"]), ids, True), canon(uiread.parse(b["ui"]), ids, True)
    print("trees equal up to generated names:", cf == cr)
    print("recorded difference:", case.get("difference"))
    return 1
