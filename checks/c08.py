"""C08  Determinism: identical inputs give byte-identical outputs.

The only scheduler qmluic has is the random key of its unordered maps. The harness owns it at
the libc `getrandom` seam (LD_PRELOAD shim, VERIF_HASH_SEED): seeds are *enumerated*; for each
seed a fresh process translates every document R times, interleaved with the other documents
(every RandomState created in a process gets a new key, so each repetition is a new ordering).
Oracle: .ui and header bytes identical over all (seed, repetition, position); multiset of
diagnostics identical; replaying a seed gives byte-identical transcripts incl. diagnostic order.
The run measures that orderings really varied: probe documents with n faulty bindings in one
map expose the map's iteration order as diagnostic order.
"""
import collections
import itertools
import json
import math
import os
import subprocess

import corpus
import vcommon as vc

LEVEL = "exploration"

RICH = [
    ("rich/props", """import qmluic.QtWidgets
QDialog {
    id: root
    windowTitle: qsTr("t"); toolTip: "tt"; statusTip: "st"; whatsThis: "w"; accessibleName: "an"
    enabled: true; minimumSize { width: 1; height: 2 }; maximumSize { width: 100; height: 200 }
    font { family: "F"; pointSize: 9; bold: true; italic: false; underline: true; kerning: false }
    sizePolicy { horizontalPolicy: QSizePolicy.Expanding; verticalPolicy: QSizePolicy.Fixed; horizontalStretch: 1; verticalStretch: 2 }
    palette { window: "red"; text: "#112233"; base: "blue"; active.button: "green"; disabled.text: "gray"; inactive.link: "#80ff00ff"; inactive.base: "white" }
    windowIcon { name: "n"; normalOff: "a.png"; normalOn: "b.png"; disabledOff: "c.png"; activeOn: "d.png" }
    QVBoxLayout {
        contentsMargins { left: 1; top: 2; right: 3; bottom: 4 }
        QCheckBox { id: cb; checked: true; text: "c"; toolTip: "x"; tristate: false; autoRepeat: true; iconSize { width: 3; height: 4 } }
        QSpinBox { id: sp; minimum: 1; maximum: 9; value: 2; suffix: "s"; prefix: "p"; singleStep: 2; wrapping: true }
        QLabel {
            id: lb
            text: sp.text + cb.text; visible: cb.checked; enabled: sp.value > 1; toolTip: sp.prefix + "!"
            indent: Math.max(sp.value, 1); margin: sp.value; wordWrap: cb.checked && sp.value == 2
            font.bold: cb.checked; font.pointSize: sp.value; font.italic: !cb.checked
            onLinkActivated: console.log("a"); onLinkHovered: console.warn("b"); onWindowTitleChanged: lb.clear()
            onObjectNameChanged: root.accept(); onWindowIconChanged: sp.value = Math.min(1, 2)
        }
        QSpacerItem { orientation: Qt.Vertical; sizeHint { width: 1; height: 2 }; sizeType { horizontalPolicy: QSizePolicy.Fixed; verticalPolicy: QSizePolicy.Expanding } }
    }
}
"""),
    ("rich/attached", """import qmluic.QtWidgets
QTabWidget {
    QWidget {
        QTabWidget.title: "a"; QTabWidget.toolTip: "b"; QTabWidget.whatsThis: "c"; QTabWidget.icon.name: "i"
        QGridLayout {
            columns: 3
            QLabel { QLayout.row: 0; QLayout.column: 1; QLayout.rowStretch: 2; QLayout.columnStretch: 3; QLayout.alignment: Qt.AlignLeft | Qt.AlignTop; QLayout.columnMinimumWidth: 5; text: "x" }
            QLabel { QLayout.rowSpan: 2; QLayout.columnSpan: 2; text: "y"; QTabWidget.title: "unused" }
            QComboBox { model: ["a", "b", "c"]; currentIndex: 1; editable: true; maxCount: 5 }
            QListWidget { model: [qsTr("a"), qsTr("b")] }
            QTableView { horizontalHeader { visible: false; stretchLastSection: true; defaultSectionSize: 5; minimumSectionSize: 2 }; verticalHeader.visible: true; verticalHeader.highlightSections: false }
            QTreeView { header.visible: false; header.stretchLastSection: false; header.cascadingSectionResizes: true }
        }
    }
    QWidget { QTabWidget.title: qsTr("t2"); QAction { id: a1; text: "1"; shortcut: QKeySequence.Copy; checkable: true; toolTip: "x"; statusTip: "y" } QAction { id: a2; separator: true } QMenu { id: m; title: "m"; actions: [a1, a2] } }
}
"""),
    ("rich/errors4", """import qmluic.QtWidgets
QWidget {
    zz1: 1; windowTitle: 2; zz3: "x"; enabled: "no"
    QLabel { text: 1; wordWrap: "x"; unknownA: 1; unknownB: 2; QLayout.row: "r"; QFoo.bar: 1; QTabWidget.title: 3 }
}
"""),
    ("rich/vobj", """import qmluic.QtWidgets
QWidget {
    id: root
    VObj { id: a; i: 1; j: 2; u: 3; d: 1.5; b: true; s: "s"; t: "t"; e: VObj.M1; f: VObj.F0 | VObj.F1; sl: ["x", "y"] }
    VObj { id: b0; p: a }
    VObj {
        id: t
        ri: a.i + b0.p.j; ru: a.u; rd: a.d * 2.0; rb: a.b || a.c; rs: a.s + a.t; re: a.e; rp: b0.p; rsl: a.sl
        onFired: a.act(); onFiredWith: function(x: int, y: QString) { a.done(x); a.say(y) }; onFiredDefault: a.done(1)
        onIChanged: console.log(a.i); onJChanged: console.info("j")
    }
}
"""),
]


def probe_doc(n):
    names = [f"zz{chr(97 + i)}{i}" for i in range(n)]
    return ("probe/%d" % n, "import qmluic.QtWidgets\nQWidget { " + "; ".join(f"{x}: {i}" for i, x in enumerate(names)) + " }\n")


def catalogue_docs():
    """Bound-1 documents of the C04 catalogue on two subjects: every binding kind (grouped values with
    constant, mixed and dynamic members, attached and pseudo-properties, handlers) and every fault kind,
    i.e. every map-valued intermediate the translator iterates over."""
    from checks import c04
    import qml
    wanted = [c04.SUBJECTS.index(("QLabel", "layout-child")), c04.SUBJECTS.index(("QTableView", "plain")),
              c04.SUBJECTS.index(("QGridLayout", "layout"))]
    for cid, (si, gi, fi) in enumerate(c04.combos("quick")):
        if si in wanted and len(gi) + len(fi) == 1:
            _sj, kinds, root = c04.instantiate(si, gi, fi)
            yield (f"cat/{c04.SUBJECTS[si][0]}/{kinds[0].name}", qml.render(root))


def include_docs():
    """A binding that needs a system include (Math.max/min: <algorithm>, % on doubles: <cmath>, console.*:
    <QtDebug>) beside every kind of grouped sibling on the same object - and nothing else pulling the include."""
    head = ("import qmluic.QtWidgets\nQWidget {\n    QSpinBox { id: s }\n    QCheckBox { id: c }\n"
            "    QDoubleSpinBox { id: d }\n")
    sibs = ["font.bold: true", "font.pointSize: s.value", "font { bold: true; italic: c.checked }",
            "sizePolicy { horizontalPolicy: QSizePolicy.Fixed; verticalPolicy: QSizePolicy.Fixed }",
            "minimumSize { width: 1; height: 2 }", "font.bold: true; sizePolicy.horizontalStretch: s.value; minimumSize.width: 3"]
    needs = ["minimumWidth: Math.max(s.value, 1)", "maximumWidth: Math.min(s.value, 9)", "onWindowTitleChanged: console.log(1)",
             "windowOpacity: d.value % 2.0", "onWindowTitleChanged: { let m = Math.max(s.value, 2); s.value = m }"]
    # one object needing two or all three headers in different bindings (every subset and order of three needs)
    three = ["toolTip: { console.log(s.value); return \"t\"; }", "minimumWidth: Math.max(s.value, 1)", "windowOpacity: d.value % 2.0",
             "onWindowTitleChanged: console.log(1)", "maximumWidth: Math.min(s.value, 9)", "statusTip: { console.warn(d.value); return \"u\"; }"]
    for n_ in (2, 3):
        for combo in itertools.permutations(three, n_):
            yield (f"include-multi/{'-'.join(str(three.index(c)) for c in combo)}", head + "    QLabel { " + "; ".join(combo) + " }\n}\n")
    for i, sib in enumerate(sibs):
        for j, need in enumerate(needs):
            yield (f"include/{i}/{j}", head + f"    QLabel {{ {sib}; {need} }}\n}}\n")
            yield (f"include-rev/{i}/{j}", head + f"    QLabel {{ {need}; {sib} }}\n}}\n")


def error_docs():
    """Documents whose diagnostics mention types: the text must not depend on the process either."""
    head = "import qmluic.QtWidgets\nQWidget {\n    id: root\n    VObj { id: v }\n    VSub { id: w }\n"
    exprs = ["v.sl[Qt.AlignLeft]", "v.sl[v]", "v.sl[\"a\"]", "v.sl[1.5]", "v.sl[true]", "v.sl[null]", "v.sl[VObj.M1]", "v.sl[v.f]",
             "v.p[0]", "v.i[0]", "v.e + 1", "v.f + v.e", "v + w", "v.p == 1", "v.sl == v.p", "v.v + 1", "[v, 1]", "[1, \"a\"]",
             "v.e ? 1 : 2", "v.take(1)", "v.done(v)", "v.done(v.e)", "v.sayMode(v.e2)", "v.sl.at(v)", "root.nosuch", "VObj.Nosuch",
             "v.p as int", "v.e as VObj", "(v.b ? v : 1)", "(v.b ? v.sl : v.p)", "Math.max(v, w)", "Math.max(v.e, v.e2)"]
    for i, e in enumerate(exprs):
        yield (f"error/{i}", head + f"    QLabel {{ onWindowTitleChanged: {{ {e}; }} }}\n}}\n")
    from checks import c05
    for k, (cid, src) in enumerate(c05.documents("quick", for_c14=True)):
        if k % 11 == 0:
            yield (f"c05/{cid}", src)


def naming_docs():
    """Anonymous objects whose class prefixes overlap (label / label1, widget / widget1): names must not depend
    on the process either."""
    from checks import c10
    import qml
    picked = 0
    for k, (seq, nest) in enumerate(c10.sequences("quick")):
        anon = [c for (c, i) in seq if i is None]
        # >= 2 anonymous objects of a class with prefix p together with an anonymous one of a class with prefix p1
        overlap = (anon.count("QLabel") >= 2 and "QLabel1" in anon) or \
            (anon.count("QWidget") >= 2 and ("QWidget1" in anon or "Widget1" in anon)) or \
            (anon.count("QLabel") >= 1 and "QLabel1" in anon and len(anon) >= 3)
        if overlap or (len(anon) >= 2 and len(set(anon)) >= 2 and k % 37 == 0):
            root, _o = c10.build(seq, nest)
            picked += 1
            yield (f"names/{k}", qml.render(root, oneline=True))


def docs_for(tier):
    docs = list(RICH)
    docs += list(naming_docs())[: (400 if tier == "quick" else 4000)]
    docs += list(catalogue_docs())
    docs += list(include_docs())
    docs += list(error_docs())
    docs += [(n, t) for n, t in corpus.all_seeds("quick") if n.startswith("g/")]
    ex = corpus.example_seeds()
    docs += [(n, t) for n, t in ex if "customwidget" not in n][: (4 if tier == "quick" else 20)]
    if tier == "thorough":
        st = list(corpus.stressor_docs())
        docs += st[::61]
    return docs


def digest(res):
    """Order-insensitive observation of one translation."""
    out = {}
    for m in vc.MODES:
        g = res["modes"][m]
        out[m] = (g.get("status"), vc.sha(g.get("ui") or ""), vc.sha(g.get("header") or ""),
                  tuple(sorted((d["kind"], d["s"], d["e"], d["msg"]) for d in g.get("diagnostics", []))))
    syn = res.get("syntax", {}).get("errors", [])
    out["syntax"] = tuple(sorted((e["s"], e["e"], e["kind"]) for e in syn))
    return out


def seed_run(seed, docs, probes, reps):
    """One fresh process with hash seed `seed`: returns (digests per doc list, probe orders,
    transcript hash)."""
    env = {"VERIF_HASH_SEED": str(seed), "LD_PRELOAD": vc.SHIM_SO}
    vd = vc.VDrive(env=env, job_timeout=120.0, no_aslr=True)
    digs = collections.defaultdict(list)
    orders = collections.defaultdict(list)
    transcript = []
    lost = []
    for rep in range(reps):
        k = rep % len(docs)
        seq = docs[k:] + docs[:k]          # how many documents were translated before varies
        for name, text in seq:
            r = vd.job({"id": name, "source": text, "modes": list(vc.MODES)})
            if r.get("crashed") or r.get("timeout") or "modes" not in r or \
                    any(r["modes"][m].get("status") == "panic" for m in vc.MODES):
                lost.append(name)
                continue
            digs[name].append(digest(r))
            transcript.append(json.dumps(r, sort_keys=True))
        for name, text in probes:
            r = vd.job({"id": name, "source": text, "modes": ["omit"]})
            order = tuple(d["msg"].rsplit(" ", 1)[-1] for d in r["modes"]["omit"]["diagnostics"])
            orders[name].append(order)
            transcript.append(json.dumps(r, sort_keys=True))
    vd.close()
    return dict(digs), dict(orders), vc.sha("\n".join(transcript)), lost


def shard_work(shard, nshards, payload):
    docs, probes, seeds, reps = payload["docs"], payload["probes"], payload["seeds"], payload["reps"]
    out = []
    for s in seeds[shard::nshards]:
        out.append((s, seed_run(s, docs, probes, reps)))
    return out


def cli_runs(tier, tally, docs, seeds, accepted_names):
    """Fresh CLI processes: all accepted sources on one command line, two argument orders, per
    seed (the command stops at the first rejected source, so rejected ones are left out)."""
    acc = [(n, t) for n, t in docs if n in accepted_names]
    with vc.scratch_dir("c08") as d:
        names = []
        for i, (n, t) in enumerate(acc):
            fn = f"Doc{i}.qml"
            with open(os.path.join(d, fn), "w") as f:
                f.write(t)
            names.append(fn)
        first = None
        for s in seeds:
            for order in (names, list(reversed(names))):
                out = os.path.join(d, f"out-{s}-{0 if order is names else 1}")
                env = dict(os.environ, VERIF_HASH_SEED=str(s), LD_PRELOAD=vc.SHIM_SO, NO_COLOR="1")
                pre = ["setarch", "-R"] if vc.can_disable_aslr() else []
                p = subprocess.run(pre + [vc.QMLUIC_BIN, "generate-ui", "--foreign-types", vc.METATYPES,
                                    "--foreign-types", vc.VTYPES, "-O", out] + order,
                                   cwd=d, env=env, stdout=subprocess.PIPE, stderr=subprocess.PIPE)
                tally.inc("cli_runs")
                files = {}
                if os.path.isdir(out):
                    for fn in sorted(os.listdir(out)):
                        files[fn] = vc.sha(open(os.path.join(out, fn), "rb").read())
                if p.returncode != 0:
                    raise vc.MachineryError("CLI rejected a document the library accepted: "
                                            + p.stderr.decode("utf-8", "replace")[-600:])
                obs = (p.returncode, tuple(sorted(files.items())))
                if first is None:
                    first = obs
                    tally.inc("cli_output_files", len(files))
                elif obs != first:
                    diff = sorted(set(dict(obs[1]).items()) ^ set(dict(first[1]).items()))
                    tally.violation("cli:outputs-differ-between-runs",
                                    {"kind": "cli", "seed": s, "exit": [p.returncode, first[0]],
                                     "differing": [x[0] for x in diff][:6]})
        # the same sources translated into a directory that already holds the outputs of an earlier
        # version of each document (one character of a constant changed: same length) must give the same bytes
        import re
        vdir = os.path.join(d, "variant")
        os.makedirs(vdir)
        changed = 0
        for fn, (n, t) in zip(names, acc):
            v = re.sub(r'"([A-Za-z])', lambda m: '"' + ("Z" if m.group(1) != "Z" else "Y"), t, count=1)
            if v == t:
                v = re.sub(r"(: )(\d)\b", lambda m: m.group(1) + str((int(m.group(2)) + 1) % 10), t, count=1)
            changed += v != t
            with open(os.path.join(vdir, fn), "w") as f:
                f.write(v)
        out = os.path.join(d, "out-preexisting")
        env = dict(os.environ, NO_COLOR="1")
        p1 = subprocess.run([vc.QMLUIC_BIN, "generate-ui", "--foreign-types", vc.METATYPES, "--foreign-types", vc.VTYPES,
                             "-O", os.path.join("..", "out-preexisting")] + names, cwd=vdir, env=env,
                            stdout=subprocess.PIPE, stderr=subprocess.PIPE)
        if p1.returncode == 0 and first is not None:
            p2 = subprocess.run([vc.QMLUIC_BIN, "generate-ui", "--foreign-types", vc.METATYPES, "--foreign-types", vc.VTYPES,
                                 "-O", out] + names, cwd=d, env=env, stdout=subprocess.PIPE, stderr=subprocess.PIPE)
            tally.inc("cli_runs", 2)
            tally.inc("cli_preexisting_variants", changed)
            files = {fn: vc.sha(open(os.path.join(out, fn), "rb").read()) for fn in sorted(os.listdir(out))}
            obs = (p2.returncode, tuple(sorted(files.items())))
            if obs != first:
                diff = sorted(set(dict(obs[1]).items()) ^ set(dict(first[1]).items()))
                tally.violation("cli:outputs-depend-on-what-the-directory-held-before",
                                {"kind": "cli", "exit": [p2.returncode, first[0]], "differing": [x[0] for x in diff][:6]})


WARN_DOCS = [
    ("First.qml", "import qmluic.QtWidgets 6.2\nQWidget { windowTitle: \"first\" }\n"),
    ("Second.qml", "import qmluic.QtWidgets\nQDialog { windowTitle: \"second\" }\n"),
    ("Third.qml", "import qmluic.QtWidgets 5.15\nQWidget { QLabel { text: \"third\" } }\n"),
]


def _sections(stderr):
    """stderr of the command split per 'processing <file>' section."""
    out = {}
    cur = None
    for line in stderr.splitlines():
        if line.startswith("processing "):
            cur = line[len("processing "):].strip()
            out[cur] = []
        elif cur is not None:
            out[cur].append(line)
    return {k: "\n".join(v).strip() for k, v in out.items()}


def cli_diagnostics_history(tally):
    """The diagnostics printed for a source must not depend on how many documents were translated
    before it in the same process: every ordered selection of the three warning documents is run
    and each 'processing X' section is compared with the section of X translated alone."""
    with vc.scratch_dir("c08w") as d:
        for fn, text in WARN_DOCS:
            with open(os.path.join(d, fn), "w") as f:
                f.write(text)
        names = [fn for fn, _t in WARN_DOCS]

        def run(args):
            p = subprocess.run([vc.QMLUIC_BIN, "generate-ui", "--foreign-types", vc.METATYPES] + list(args),
                               cwd=d, env=dict(os.environ, NO_COLOR="1"), stdout=subprocess.PIPE,
                               stderr=subprocess.PIPE)
            tally.inc("cli_runs")
            return p.returncode, _sections(p.stderr.decode("utf-8", "replace"))
        alone = {fn: run([fn]) for fn in names}
        for k in (2, 3):
            for arr in itertools.permutations(names, k):
                rc, secs = run(arr)
                tally.inc("cli_history_runs")
                for fn in arr:
                    if secs.get(fn) != alone[fn][1].get(fn):
                        tally.violation("cli:diagnostics-depend-on-earlier-documents",
                                        {"kind": "cli-history", "order": list(arr), "source": fn,
                                         "alone": alone[fn][1].get(fn), "in_sequence": secs.get(fn)})
                if rc != 0:
                    tally.violation("cli:warning-documents-rejected", {"kind": "cli-history", "order": list(arr)})


def main(tier, t0):
    vc.ensure_vdrive()
    vc.ensure_cli()
    vc.ensure_shim()
    S, R = (16, 8) if tier == "quick" else (128, 24)
    docs = docs_for(tier)
    probes = [probe_doc(n) for n in (2, 3, 4, 6)]
    seeds = list(range(S))
    results = []
    for part in vc.run_sharded(shard_work, {"docs": docs, "probes": probes, "seeds": seeds, "reps": R}):
        results += part
    tally = vc.Tally()
    # replay discipline: seed 0 twice -> byte-identical transcript (incl. diagnostic order)
    again = seed_run(seeds[0], docs, probes, R)
    first0 = [r for s, r in results if s == seeds[0]][0]
    if again[2] != first0[2] and vc.can_disable_aslr():
        raise vc.MachineryError("replaying hash seed 0 did not reproduce the transcript: the "
                                "getrandom seam does not own all nondeterminism")
    ref = {}
    orders = collections.defaultdict(set)
    evaluations = 0
    for s, (digs, ords, _h, lost) in sorted(results):
        for name, lst in digs.items():
            for i, dg in enumerate(lst):
                evaluations += 1
                if name not in ref:
                    ref[name] = (s, i, dg)
                    continue
                if dg != ref[name][2]:
                    rs, ri, rd = ref[name]
                    what = []
                    for m in vc.MODES:
                        a, b = dg[m], rd[m]
                        if a[0] != b[0]:
                            what.append(f"{m}:status")
                        if a[1] != b[1]:
                            what.append(f"{m}:ui-bytes")
                        if a[2] != b[2]:
                            what.append(f"{m}:header-bytes")
                        if a[3] != b[3]:
                            what.append(f"{m}:diagnostic-set")
                    src = dict(docs)[name]
                    tally.violation("differs:" + ",".join(sorted(set(w.split(":")[1] for w in what))),
                                    {"kind": "inproc", "doc": name, "source": src,
                                     "seed_a": rs, "rep_a": ri, "seed_b": s, "rep_b": i, "what": what})
        for name, lst in ords.items():
            orders[name] |= set(lst)
        for n in lost:
            tally.lost.append({"doc": n, "seed": s})
    accepted_names = {n for n, (_s, _i, dg) in ref.items()
                      if dg["generate"][0] == "built" and not dg["syntax"]
                      and not any(k == "error" for (k, _a, _b, _m) in dg["generate"][3])}
    cli_runs(tier, tally, docs, seeds[: (4 if tier == "quick" else 16)], accepted_names)
    cli_diagnostics_history(tally)
    perm = {}
    for n in (2, 3, 4, 6):
        got = len(orders[f"probe/{n}"])
        perm[str(n)] = {"distinct_orders_observed": got, "of": math.factorial(n)}
    cov = {
        "evaluations": evaluations + tally.counts.get("cli_runs", 0),
        "distinct_nontrivial": sum(len(v) for v in orders.values()),
        "rule": "schedules = hash seeds, enumerated 0..S-1 in fresh processes, each translating every "
                "document R times interleaved (each repetition draws new map keys); an evaluation is one "
                "translation compared with the reference translation of the same document; "
                "distinct_nontrivial counts the distinct map iteration orders actually observed "
                "through the probe documents (the measured proof that schedules differed)",
        "exhaustive": all(v["distinct_orders_observed"] == v["of"] for k, v in perm.items() if int(k) <= (3 if tier == "quick" else 4)),
        "seeds": S, "repetitions_per_seed": R, "documents": len(docs),
        "orders_observed": perm,
        "cli_runs": tally.counts.get("cli_runs", 0),
        "cli_history_runs": tally.counts.get("cli_history_runs", 0),
        "cli_output_files_compared": tally.counts.get("cli_output_files", 0),
        "replay_of_seed_0_identical": again[2] == first0[2],
        "aslr_disabled_for_children": vc.can_disable_aslr(),
        "samples": [{"doc": n, "source_head": t[:140]} for n, t in docs[:3]] + [probes[2][1]],
    }
    assumptions = [
        "exhaustive over the iteration orders of small maps (all n! orders observed for n<=3 quick / "
        "n<=4 thorough), not over the 2^128 seeds",
        "diagnostic *order* may vary between schedules; their multiset (kind, range, message) may not",
    ]
    return vc.finish("C08", tier, LEVEL, tally, cov, assumptions, t0)


def replay(path):
    vc.ensure_vdrive()
    vc.ensure_shim()
    r = json.load(open(path))
    c = r["case"]
    if c.get("kind") != "inproc":
        print("CLI witnesses are re-run by the full check")
        return main("quick", __import__("time").time())
    docs = [(c["doc"], c["source"])]
    a = seed_run(c["seed_a"], docs, [], c["rep_a"] + 1)[0][c["doc"]][c["rep_a"]]
    b = seed_run(c["seed_b"], docs, [], c["rep_b"] + 1)[0][c["doc"]][c["rep_b"]]
    if a != b:
        print(f"VIOLATION property=C08 replay={path}")
        return 1
    print("replay: identical now")
    return 0
