"""C02  Dynamic bindings stay current when any property they read changes.

Explicit-state model checking over change histories, every transition executed on the real
generated code (engine/qtmock/explorer.h): programs = every read path x every position
(+ chained bindings); a state = (valuation of the properties read, observer slots, live
connections); events = set a read property to the next value of its small domain / re-point or
null a pointer property; breadth-first from *every* defined valuation (setup() is run in
non-initial states too) up to a depth bound; invariant after setup() and after every event:
target == value of the expression in the current state (reference table computed in Python).
Second clause: a read of a non-constant property without NOTIFY must be rejected, of a CONSTANT
one accepted.
"""
import itertools
import json
import re

import harness
import refeval as rv
import uiread
import vcommon as vc

LEVEL = "model_checking"

HEAD = ("import qmluic.QtWidgets\nQWidget {\n    id: root\n    VObj { id: a }\n    VObj { id: b0 }\n"
        "    VObj { id: c0 }\n")
INT_DOM = [0, 1, 2]
BOOL_DOM = [False, True]
LIST_DOM = [(), ("x",), ("y", "x")]


class U(Exception):
    pass


def deref(st, o, prop):
    if o is None:
        raise U()
    return st[f"{o}.{prop}"]


# read paths: name -> (prelude, expression text R, python function, props read [(key, domain)])
def paths():
    P3 = [None, "b0", "c0"]
    yield ("named", "", "a.i", lambda st: st["a.i"], [("a.i", INT_DOM)])
    yield ("implicit-this", "", "j", lambda st: st["t.j"], [("t.j", INT_DOM)])
    yield ("explicit-this", "", "this.j", lambda st: st["t.j"], [("t.j", INT_DOM)])
    yield ("alias", "let o = a;", "o.i", lambda st: st["a.i"], [("a.i", INT_DOM)])
    yield ("alias-reassigned-in-branch", "let o = a; if (c0.b) { o = b0; }", "o.i",
           lambda st: st["b0.i"] if st["c0.b"] else st["a.i"],
           [("c0.b", BOOL_DOM), ("a.i", INT_DOM), ("b0.i", INT_DOM)])
    yield ("pointer-chain", "", "(a.p != null ? a.p.i : 7)",
           lambda st: deref(st, st["a.p"], "i") if st["a.p"] is not None else 7,
           [("a.p", P3), ("b0.i", INT_DOM), ("c0.i", INT_DOM)])
    yield ("pointer-chain-unguarded", "", "a.p.i", lambda st: deref(st, st["a.p"], "i"),
           [("a.p", P3), ("b0.i", INT_DOM), ("c0.i", INT_DOM)])
    yield ("two-level-chain", "", "(a.p != null && a.p.q != null ? a.p.q.i : 7)",
           lambda st: (deref(st, deref(st, st["a.p"], "q"), "i")
                       if st["a.p"] is not None and deref(st, st["a.p"], "q") is not None else 7),
           [("a.p", P3), ("b0.q", P3), ("c0.q", P3), ("b0.i", INT_DOM), ("c0.i", INT_DOM)])
    yield ("chosen-by-ternary", "", "(c0.b ? a : b0).i", lambda st: st["a.i"] if st["c0.b"] else st["b0.i"],
           [("c0.b", BOOL_DOM), ("a.i", INT_DOM), ("b0.i", INT_DOM)])
    yield ("chosen-by-switch", "let o = a; switch (c0.j) { case 1: o = b0; break; case 2: o = c0; break; }", "o.i",
           lambda st: st[{1: "b0", 2: "c0"}.get(st["c0.j"], "a") + ".i"],
           [("c0.j", INT_DOM), ("a.i", INT_DOM), ("b0.i", INT_DOM), ("c0.i", INT_DOM)])
    yield ("alias-of-pointer-property", "let o = a.p;", "(o != null ? o.i : 7)",
           lambda st: deref(st, st["a.p"], "i") if st["a.p"] is not None else 7,
           [("a.p", P3), ("b0.i", INT_DOM), ("c0.i", INT_DOM)])
    yield ("same-property-twice-through-reassigned-local",
           "let w = c0.b ? a : b0; let x = w.i; w = c0.c ? b0 : c0;", "(x * 3 + w.i)",
           lambda st: (st["a.i"] if st["c0.b"] else st["b0.i"]) * 3 + (st["b0.i"] if st["c0.c"] else st["c0.i"]),
           [("c0.b", BOOL_DOM), ("c0.c", BOOL_DOM), ("a.i", INT_DOM), ("b0.i", INT_DOM), ("c0.i", INT_DOM)])


    yield ("same-property-twice-same-block",
           "let p1 = c0.b ? a : b0; let q1 = c0.c ? b0 : c0; let w = p1; let x = w.i; w = q1;", "(x * 3 + w.i)",
           lambda st: (st["a.i"] if st["c0.b"] else st["b0.i"]) * 3 + (st["b0.i"] if st["c0.c"] else st["c0.i"]),
           [("c0.b", BOOL_DOM), ("c0.c", BOOL_DOM), ("a.i", INT_DOM), ("b0.i", INT_DOM), ("c0.i", INT_DOM)])
    yield ("two-pointer-properties-same-block", "let w = a.p; let x = (w != null ? w.i : 5); w = a.q;", "(x * 3 + (w != null ? w.i : 6))",
           lambda st: (deref(st, st["a.p"], "i") if st["a.p"] is not None else 5) * 3 +
                      (deref(st, st["a.q"], "i") if st["a.q"] is not None else 6),
           [("a.p", P3), ("a.q", P3), ("b0.i", INT_DOM), ("c0.i", INT_DOM)])
    yield ("three-reads-one-local", "let w = a.p; let x = 0; if (w != null) { x = w.i + w.j; w = w.q; if (w != null) { x = x * 3 + w.i; } }", "x",
           lambda st: three_reads(st),
           [("a.p", P3), ("b0.q", P3), ("c0.q", P3), ("b0.i", INT_DOM), ("c0.i", INT_DOM), ("b0.j", [0, 1]), ("c0.j", [0, 1])])


def paths2():
    """Read paths added after a seeded change was missed: reads placed after a switch whose clauses
    break (backward jump to the exit slot), with and without default, through a local or directly."""
    yield ("read-after-switch-default-break", "let s = 0; switch (c0.j) { case 1: s = 1; break; default: s = 2; break; }", "(s * 10 + a.i)",
           lambda st: (1 if st["c0.j"] == 1 else 2) * 10 + st["a.i"], [("c0.j", INT_DOM), ("a.i", INT_DOM)])
    yield ("object-chosen-by-switch-with-default", "let o = a; switch (c0.j) { case 1: o = b0; break; default: o = c0; break; }", "o.i",
           lambda st: st[{1: "b0"}.get(st["c0.j"], "c0") + ".i"], [("c0.j", INT_DOM), ("b0.i", INT_DOM), ("c0.i", INT_DOM)])
    yield ("read-after-switch-default-first", "let s = 0; switch (c0.j) { default: s = 2; break; case 1: s = 1; break; }", "(s * 10 + a.i)",
           lambda st: (1 if st["c0.j"] == 1 else 2) * 10 + st["a.i"], [("c0.j", INT_DOM), ("a.i", INT_DOM)])
    yield ("read-after-switch-fallthrough-then-break", "let s = 0; switch (c0.j) { case 1: s = 1; case 2: s = s + 2; break; default: s = 9; }", "(s * 10 + a.i)",
           lambda st: {1: 3, 2: 2}.get(st["c0.j"], 9) * 10 + st["a.i"], [("c0.j", INT_DOM), ("a.i", INT_DOM)])
    yield ("read-after-nested-if-join", "let s = 0; if (c0.b) { if (c0.c) { s = 1; } else { s = 2; } } else { s = 3; }", "(s * 10 + a.i)",
           lambda st: ((1 if st["c0.c"] else 2) if st["c0.b"] else 3) * 10 + st["a.i"],
           [("c0.b", BOOL_DOM), ("c0.c", BOOL_DOM), ("a.i", INT_DOM)])


def three_reads(st):
    w = st["a.p"]
    x = 0
    if w is not None:
        x = st[f"{w}.i"] + st[f"{w}.j"]
        w = st[f"{w}.q"]
        if w is not None:
            x = x * 3 + st[f"{w}.i"]
    return x


# positions: name -> (body template, python wrapper, extra props)
def positions():
    yield ("unconditional", "{pre} return {R};", lambda st, r: r(st), [])
    yield ("right-of-and", "{pre} return (a.c && {R} > 0) ? 1 : 0;", lambda st, r: 1 if (st["a.c"] and r(st) > 0) else 0,
           [("a.c", BOOL_DOM)])
    yield ("right-of-or", "{pre} return (a.c || {R} > 1) ? 1 : 0;", lambda st, r: 1 if (st["a.c"] or r(st) > 1) else 0,
           [("a.c", BOOL_DOM)])
    yield ("ternary-arm", "{pre} return a.c ? {R} : 9;", lambda st, r: r(st) if st["a.c"] else 9, [("a.c", BOOL_DOM)])
    yield ("if-else", "{pre} if (a.c) {{ return {R}; }} else {{ return 9; }}", lambda st, r: r(st) if st["a.c"] else 9,
           [("a.c", BOOL_DOM)])
    yield ("case-body", "{pre} switch (a.j) {{ case 1: return {R}; default: return 9; }}",
           lambda st, r: r(st) if st["a.j"] == 1 else 9, [("a.j", INT_DOM)])
    yield ("after-early-return", "{pre} if (a.c) return 9; return {R};", lambda st, r: 9 if st["a.c"] else r(st),
           [("a.c", BOOL_DOM)])
    # completion values instead of explicit returns (the last expression statement is the value)
    yield ("early-return-then-literal-completion", "{pre} if (a.c) {{ return {R}; }} 9", lambda st, r: r(st) if st["a.c"] else 9,
           [("a.c", BOOL_DOM)])
    yield ("literal-return-then-completion", "{pre} if (a.c) {{ return 9; }} {R}", lambda st, r: 9 if st["a.c"] else r(st),
           [("a.c", BOOL_DOM)])
    yield ("completion-in-both-arms", "{pre} if (a.c) {{ {R} }} else {{ 9 }}", lambda st, r: r(st) if st["a.c"] else 9,
           [("a.c", BOOL_DOM)])


def programs(tier):
    """Yields dict(name, source, sinks=[(object, prop, fn)], props=[(key, domain)])."""
    for (pn, pre, R, pf, pprops), (qn, tmpl, qf, qprops) in itertools.product(list(paths()) + list(paths2()), positions()):
        props = []
        for k, d in pprops + qprops:
            if k not in [x for x, _ in props]:
                props.append((k, d))
        body = tmpl.format(pre=pre, R=R)
        src = HEAD + f"    VObj {{\n        id: t\n        ri: {{ {body} }}\n    }}\n}}\n"
        fn = (lambda pf_, qf_: (lambda st: qf_(st, pf_)))(pf, qf)
        yield {"name": f"{pn}/{qn}", "source": src, "sinks": [("t", "ri", fn)], "props": props}
    if tier == "thorough":
        # two read paths in one expression (every ordered pair whose joint valuation space stays small)
        for (pn, pre, R, pf, pprops), (qn, pre2, R2, pf2, pprops2) in itertools.product(paths(), paths()):
            if pn >= qn:
                continue
            locals1 = set(re.findall(r"let (\w+)", pre))
            locals2 = set(re.findall(r"let (\w+)", pre2))
            if locals1 & locals2:
                continue
            props = []
            for k, d in pprops + pprops2:
                if k not in [x for x, _ in props]:
                    props.append((k, d))
            size = 1
            for _k, d in props:
                size *= len(d)
            if size > 1500:
                continue
            body = f"{pre} {pre2} return {R} * 5 + {R2};"
            src = HEAD + f"    VObj {{\n        id: t\n        ri: {{ {body} }}\n    }}\n}}\n"
            fn = (lambda a_, b_: (lambda st: a_(st) * 5 + b_(st)))(pf, pf2)
            yield {"name": f"pair/{pn}+{qn}", "source": src, "sinks": [("t", "ri", fn)], "props": props}
    # chained bindings and two bindings on one source
    yield {"name": "chain/two-bindings",
           "source": HEAD + "    VObj { id: m; ri: a.i + 1 }\n    VObj { id: t; ri: m.ri * 2 }\n}\n",
           "sinks": [("t", "ri", lambda st: (st["a.i"] + 1) * 2), ("m", "ri", lambda st: st["a.i"] + 1)],
           "props": [("a.i", INT_DOM)]}
    yield {"name": "chain/through-pointer",
           "source": HEAD + "    VObj { id: m; rp: c0.b ? a : b0 }\n    VObj { id: t; ri: m.rp != null ? m.rp.i : 7 }\n}\n",
           "sinks": [("t", "ri", lambda st: st["a.i"] if st["c0.b"] else st["b0.i"])],
           "props": [("c0.b", BOOL_DOM), ("a.i", INT_DOM), ("b0.i", INT_DOM)]}
    yield {"name": "fanout/two-bindings-one-source",
           "source": HEAD + "    VObj { id: m; ri: a.i + a.j }\n    VObj { id: t; ri: a.i * 2; rb: a.i > a.j }\n}\n",
           "sinks": [("t", "ri", lambda st: st["a.i"] * 2), ("m", "ri", lambda st: st["a.i"] + st["a.j"]),
                     ("t", "rb", lambda st: st["a.i"] > st["a.j"])],
           "props": [("a.i", INT_DOM), ("a.j", INT_DOM)]}
    # grouped values: every member that is dynamic stays current, whatever its neighbours are
    yield {"name": "group/dotted-mixed",
           "source": HEAD + "    VObj { id: t; font.family: \"x\"; font.pointSize: a.i + 1 }\n}\n",
           "sinks": [("t", "font().pointSize", lambda st: st["a.i"] + 1, "I")], "props": [("a.i", INT_DOM)]}
    yield {"name": "group/braces-mixed",
           "source": HEAD + "    VObj { id: t; font { family: \"x\"; pointSize: a.i; bold: b0.b; italic: true } }\n}\n",
           "sinks": [("t", "font().pointSize", lambda st: st["a.i"], "I"), ("t", "font().bold", lambda st: st["b0.b"], "B")],
           "props": [("a.i", INT_DOM), ("b0.b", BOOL_DOM)]}
    yield {"name": "group/all-dynamic",
           "source": HEAD + "    VObj { id: t; font.pointSize: a.i; font.bold: a.b }\n}\n",
           "sinks": [("t", "font().pointSize", lambda st: st["a.i"], "I"), ("t", "font().bold", lambda st: st["a.b"], "B")],
           "props": [("a.i", INT_DOM), ("a.b", BOOL_DOM)]}
    yield {"name": "group/sizepolicy-mixed",
           "source": HEAD + "    VObj { id: t; sizePolicy { horizontalPolicy: QSizePolicy.Fixed; verticalPolicy: QSizePolicy.Fixed; "
                            "horizontalStretch: c0.b ? a.i : b0.i } }\n}\n",
           "sinks": [("t", "sizePolicy().horizontalStretch", lambda st: st["a.i"] if st["c0.b"] else st["b0.i"], "I")],
           "props": [("c0.b", BOOL_DOM), ("a.i", INT_DOM), ("b0.i", INT_DOM)]}
    yield {"name": "group/mixed-plus-plain-binding",
           "source": HEAD + "    VObj { id: t; font.bold: true; font.pointSize: a.i; ri: a.i * 2 }\n}\n",
           "sinks": [("t", "font().pointSize", lambda st: st["a.i"], "I"), ("t", "ri", lambda st: st["a.i"] * 2)],
           "props": [("a.i", INT_DOM)]}
    yield {"name": "list/element",
           "source": HEAD + "    VObj { id: t; rs: a.sl.isEmpty() ? \"-\" : a.sl[0] }\n}\n",
           "sinks": [("t", "rs", lambda st: st["a.sl"][0] if st["a.sl"] else "-")],
           "props": [("a.sl", LIST_DOM)]}
    yield {"name": "mixed/string-and-default-arg-notify",
           "source": HEAD + "    VObj { id: t; rs: a.s + (a.o > 0 ? \"+\" : \"-\") + b0.t }\n}\n",
           "sinks": [("t", "rs", lambda st: st["a.s"] + ("+" if st["a.o"] > 0 else "-") + st["b0.t"])],
           "props": [("a.s", ["", "x"]), ("a.o", INT_DOM), ("b0.t", ["", "y"])]}


def kind_of_prop(key):
    return rv.PROP_KIND[key.split(".")[1]]


def render_sink(kind, v):
    return rv.show_value(kind, v)


OBS_RE = re.compile(r"PropertyObserver (\w+)\[(\d+)\];")


def build_program(vd, k, prog, depth, t):
    pid = f"M{k}"
    r = vd.job({"id": k, "source": prog["source"], "modes": ["generate"], "type_name": pid})
    if r.get("crashed") or r.get("timeout") or "modes" not in r or r["modes"]["generate"].get("status") == "panic":
        t.lost.append({"id": prog["name"]})
        return None
    g = r["modes"]["generate"]
    if r.get("has_syntax_error"):
        raise vc.MachineryError("syntax error in generated program:\n" + prog["source"])
    if not vc.accepted(g):
        t.violation("rejected-an-observable-binding", {"program": prog["name"], "source": prog["source"],
                                                       "diagnostics": g["diagnostics"]})
        return None
    props = prog["props"]
    keys = [k2 for k2, _d in props]
    doms = [d for _k, d in props]
    # expected table over all valuations
    expected = []
    undefined = 0
    for combo in itertools.product(*[range(len(d)) for d in doms]):
        st = {k2: d[i] for (k2, d), i in zip(props, combo)}
        try:
            vals = []
            for sink in prog["sinks"]:
                (obj, prop, fn) = sink[:3]
                vals.append(render_sink(sink[3] if len(sink) > 3 else rv.PROP_KIND[prop], fn(st)))
            expected.append('"' + ";".join(vals) + '"')
        except (U, rv.Undefined):
            expected.append("nullptr")
            undefined += 1
    # events
    events = []
    for i, (k2, d) in enumerate(props):
        if kind_of_prop(k2) == "P":
            for vi in range(len(d)):
                events.append((i, vi))
        else:
            events.append((i, -1))
    observers = OBS_RE.findall(g["header"])
    obs_code = " ".join(
        f'for (int i = 0; i < {n}; ++i) {{ s += sup->{name}[i].connection ? "C" : "-"; '
        f's += sup->{name}[i].object ? static_cast<QObject *>(sup->{name}[i].object)->vname : std::string("0"); s += ","; }}'
        for name, n in observers)
    # world struct
    ui = uiread.parse(g["ui"])
    import qtmock
    _uih, members, root_cls, root_name = qtmock.ui_header(ui, pid)
    decls = [f"{root_cls} root_obj;", f"Ui::{pid} ui_obj;"] + [f"{cls} {n}_obj;" for cls, n in members]
    ctor = [f'root_obj.vname = "{root_name}";'] + [f'{n}_obj.vname = "{n}"; ui_obj.{n} = &{n}_obj;' for cls, n in members]
    objptr = {"a": "&a_obj", "b0": "&b0_obj", "c0": "&c0_obj", None: "nullptr"}
    cases = []
    for i, (k2, d) in enumerate(props):
        o, p = k2.split(".")
        kd = kind_of_prop(k2)
        setter = f"{o}_obj.set{p[0].upper()}{p[1:]}"
        inner = []
        for vi, v in enumerate(d):
            if kd == "P":
                val = objptr[v]
            else:
                val = rv.cxx_value(kd, v)
            inner.append(f"case {vi}: {setter}({val}); break;")
        cases.append(f"case {i}: switch (d) {{ {' '.join(inner)} }} break;")
    targets = ' + ";" + '.join(f"verif::showValue({sk[0]}_obj.{sk[1]}())" for sk in prog["sinks"])
    all_objs = ["root_obj"] + [f"{n}_obj" for cls, n in members if cls != "QSpacerItem"]
    conn_code = " ".join(
        f'for (auto &c : static_cast<QObject &>({o}).conns) if (c->connected) {{ ++n; sig.push_back(static_cast<QObject &>({o}).vname + ":" + std::to_string(std::hash<std::string>()(c->key) % 9973)); }}'
        for o in all_objs)
    world = f"""
struct W_{pid} {{
    {' '.join(decls)}
    UiSupport::{pid} *sup = nullptr;
    W_{pid}() {{ {' '.join(ctor)} }}
    ~W_{pid}() {{ delete sup; }}
    void apply(int prop, int d) {{ switch (prop) {{ {' '.join(cases)} }} }}
    void setup() {{ sup = new UiSupport::{pid}(&root_obj, &ui_obj); sup->setup(); }}
    std::string target() {{ return {targets}; }}
    long connections() {{ long n = 0; std::vector<std::string> sig; {conn_code} return n; }}
    std::string implState() {{
        std::string s; {obs_code}
        long n = 0; std::vector<std::string> sig; {conn_code}
        std::sort(sig.begin(), sig.end());
        for (auto &x : sig) s += x + "|";
        return s;
    }}
}};
"""
    spec = f"""    verif::Spec spec;
    spec.domsize = {{ {', '.join(str(len(d)) for d in doms)} }};
    spec.propnames = {{ {', '.join('"' + k2 + '"' for k2 in keys)} }};
    static const char *EXP[] = {{ {', '.join(expected)} }};
    spec.expected.assign(EXP, EXP + {len(expected)});
    spec.events = {{ {', '.join('{' + str(a) + ', ' + str(b) + '}' for a, b in events)} }};
    spec.depth = {depth};
    verif::explore<W_{pid}>("{pid}", spec);"""
    p = harness.Program(pid, g["ui"], g["header"], spec,
                        {"name": prog["name"], "source": prog["source"], "valuations": len(expected),
                         "undefined": undefined, "events": len(events), "props": keys,
                         "domains": [[str(x) for x in d] for d in doms], "observers": len(observers)})
    p.prelude = world
    return p


def unobservable_cases():
    """Second clause: reads of a property without NOTIFY (and not CONSTANT) must be rejected with a
    diagnostic, reads of a CONSTANT one accepted - through every read path."""
    forms = [("named", "ri: a.{p}"), ("implicit-this", "ri: {p}"), ("explicit-this", "ri: this.{p}"),
             ("alias", "ri: {{ let o = a; return o.{p}; }}"), ("ternary-object", "ri: (a.b ? a : b0).{p}"),
             ("pointer-chain", "ri: a.p != null ? a.p.{p} : 0"), ("in-branch", "ri: a.b ? a.{p} : 0"),
             ("in-case", "ri: {{ switch (a.i) {{ case 1: return a.{p}; }} return 0; }}"),
             ("right-of-and", "rb: a.b && a.{p} > 0"), ("method-arg", "rs: \"%1\".arg(a.{p})"),
             ("real-qt", None)]
    for name, f in forms:
        if f is None:
            yield (name + "/no-notify", HEAD + "    QLabel { id: lb }\n    VObj { id: t; rs: lb.text }\n}\n", False)
            yield (name + "/notify", HEAD + "    QLineEdit { id: le }\n    VObj { id: t; rs: le.text }\n}\n", True)
            # pseudo properties the documentation introduces for convenience are not Q_PROPERTYs: nothing announces a change
            yield (name + "/action-separator", HEAD + "    QAction { id: act; checkable: true }\n    VObj { id: t; rb: act.separator }\n}\n", False)
            yield (name + "/action-separator-via-local", HEAD + "    QAction { id: act }\n    VObj { id: t; rb: { let x = act; return x.separator; } }\n}\n", False)
            yield (name + "/push-button-default", HEAD + "    QPushButton { id: pb }\n    VObj { id: t; rb: pb.default_ }\n}\n", False)
            continue
        for p, ok in (("n", False), ("k", True), ("i", True)):
            yield (f"{name}/{p}", HEAD + "    VObj { id: t; " + f.format(p=p) + " }\n}\n", ok)
    # a derived class: inherited properties, an own property announced by a signal of the base class, by an own
    # signal, and by none
    for p, ok in (("i", True), ("n", False), ("k", True), ("w", True), ("x", True), ("y", False)):
        yield (f"derived/named/{p}", HEAD + "    VSub { id: sb }\n    VObj { id: t; ri: sb." + p + " }\n}\n", ok)
        yield (f"derived/implicit-this/{p}", HEAD + "    VSub { id: t; ri: " + p + " }\n}\n", ok)


def no_notify_sweep():
    """Every readable property of every widget class (and QAction) that the type information gives neither a
    NOTIFY signal nor the CONSTANT flag, read in a binding: must not be accepted.  And dynamic members of the
    header maps of item views: rejected, or really connected."""
    import qtmock
    from checks import c04
    types = qtmock.load_types()
    head = "import qmluic.QtWidgets\nQWidget {\n    id: root\n"
    for cls in c04.sweep_classes() + ["QAction"]:
        for p_ in types.get(cls, {}).get("properties", []):
            if p_.get("read") and not p_.get("notify") and not p_.get("constant"):
                n = p_["name"]
                yield (f"sweep/{cls}.{n}", head + f"    {cls} {{ id: src }}\n    VObj {{ id: t; rb: src.{n} == src.{n} }}\n}}\n", False, None)
    for view, hname in (("QTableView", "horizontalHeader"), ("QTableView", "verticalHeader"), ("QTreeView", "header")):
        for member, expr in (("defaultSectionSize", "a.i"), ("visible", "a.b"), ("stretchLastSection", "a.b")):
            for notation in ("dotted", "braces"):
                b = f"{hname}.{member}: {expr}" if notation == "dotted" else f"{hname} {{ {member}: {expr} }}"
                yield (f"header-map/{view}.{hname}.{member}/{notation}", HEAD + f"    {view} {{ id: t; {b} }}\n}}\n", None,
                       "Changed")      # accepted => some change signal of `a` must be connected


def shard_work(shard, nshards, payload):
    tier = payload["tier"]
    depth = 12
    vd = vc.worker_vdrive()
    t = vc.Tally()
    ps = []
    for k, prog in enumerate(programs(tier)):
        if k % nshards != shard:
            continue
        p = build_program(vd, k, prog, depth, t)
        if p is not None:
            ps.append(p)
    for p in ps:
        # a program whose target follows its sources needs the support code: a mode that produces none must not accept it
        if not p.meta.get("props"):
            continue        # nothing is read: a constant
        rj = vd.job({"id": p.pid, "source": p.meta["source"], "modes": ["reject"]})["modes"]["reject"]
        t.inc("reject_mode_programs")
        if vc.accepted(rj):
            t.violation("stale:accepted-in-the-mode-without-support-code", {"program": p.meta["name"], "source": p.meta["source"]})
    res = run_programs(ps, f"c02-{shard}")
    for p in ps:
        judge(t, p, res[p.pid])
    for k, (name, src, ok, must_connect) in enumerate(no_notify_sweep()):
        if k % nshards != shard:
            continue
        r = vd.job({"id": name, "source": src, "modes": ["generate"]})
        if "modes" not in r or r["modes"]["generate"].get("status") == "panic":
            continue
        g = r["modes"]["generate"]
        t.inc("notify_clause_programs")
        acc = vc.accepted(g, r.get("has_syntax_error"))
        if acc and must_connect is None:
            t.violation("notify-clause:accepted-a-read-without-notify-signal", {"program": name, "source": src})
        elif acc and not re.search(r"QObject::connect\(this->ui_->a, [^\n]*%s" % must_connect, g["header"] or ""):
            t.violation("stale:accepted-without-a-connection", {"program": name, "source": src})
    if shard == 0:
        for name, src, ok in unobservable_cases():
            r = vd.job({"id": name, "source": src, "modes": ["generate"]})
            g = r["modes"]["generate"]
            t.inc("notify_clause_programs")
            acc = vc.accepted(g, r.get("has_syntax_error"))
            if ok and not acc:
                t.violation("notify-clause:rejected-an-observable-or-constant-read",
                            {"program": name, "source": src, "diagnostics": g.get("diagnostics")})
            if not ok:
                errs = [d for d in g.get("diagnostics", []) if d["kind"] == "error"]
                if acc or not errs:
                    t.violation("notify-clause:accepted-a-read-without-notify-signal", {"program": name, "source": src})
    return t


def run_programs(ps, tag):
    """Like harness.run_batch but with the world structs spliced in front of the drivers."""
    for p in ps:
        p.driver_body = p.driver_body
    # splice: harness writes `static void run_<pid>() { body }`; worlds go into an extra header
    import os
    import tempfile
    import shutil
    out = {p.pid: {"lines": [], "compile_error": None, "crash": None} for p in ps}
    if not ps:
        return out
    base = os.environ.get("VERIF_SCRATCH", tempfile.gettempdir())
    workdir = tempfile.mkdtemp(prefix=f"verif-cxx-{tag}-", dir=base)
    try:
        main_cpp = harness.build_tu(ps, workdir)
        text = open(main_cpp).read()
        worlds = '#include "explorer.h"\n' + "\n".join(p.prelude for p in ps)
        text = text.replace("#undef private", "#undef private\n" + worlds, 1)
        with open(main_cpp, "w") as f:
            f.write(text)
        rc, log = harness.compile_tu(workdir, main_cpp)
        if rc != 0:
            if len(ps) == 1:
                out[ps[0].pid]["compile_error"] = log[-3000:]
                return out
            mid = len(ps) // 2
            out.update(run_programs(ps[:mid], tag))
            out.update(run_programs(ps[mid:], tag))
            return out
        for p in ps:
            rc1, so1, se1 = harness.run_tu(workdir, only=p.pid, timeout=300)
            harness.parse_lines(so1, out)
            if rc1 == "timeout":
                out[p.pid]["crash"] = "timeout: exploration did not finish within 300 s"
            elif rc1 != 0:
                out[p.pid]["crash"] = f"exit {rc1}: " + se1[-1500:]
        return out
    finally:
        shutil.rmtree(workdir, ignore_errors=True)


def judge(t, p, res):
    m = p.meta
    case = {"program": m["name"], "source": m["source"], "props": m["props"], "domains": m["domains"]}
    if res["compile_error"]:
        t.violation("generated-code-does-not-compile", dict(case, compile_error=res["compile_error"][-700:]))
        t.inc("programs_not_compiling")
        return
    if res["crash"]:
        t.violation("crash:" + ("explorer-timeout" if res["crash"].startswith("timeout") else "generated-code-crashed"),
                    dict(case, crash=res["crash"][-600:]))
        return
    summary = None
    for kind, text in res["lines"]:
        if kind == "summary":
            summary = dict(kv.split("=") for kv in text.split())
        elif kind == "violation":
            feat = "stale-after-setup" if "(after setup)" in text else ("exception" if "exception:" in text else "stale-after-change")
            path = m["name"].split("/")[0]
            t.violation(f"stale:{feat}:{path}", dict(case, counterexample=text))
    if summary is None:
        t.violation("crash:no-summary", case)
        return
    t.inc("programs")
    for k in ("states", "transitions", "histories", "pruned", "target_changes", "reattach"):
        t.inc(k, int(summary[k]))
    t.counts["max_connections"] = max(t.counts.get("max_connections", 0), int(summary["max_connections"]))
    t.counts["max_depth_reached"] = max(t.counts.get("max_depth_reached", 0), int(summary.get("max_depth", 0)))
    t.inc("frontier_states_cut_by_depth_bound", int(summary.get("depth_cut", 0)))
    if int(summary.get("depth_cut", 0)) == 0:
        t.inc("programs_explored_to_closure")
    t.inc("valuations", m["valuations"])
    t.inc("undefined_valuations", m["undefined"])
    if int(summary["target_changes"]) > 0:
        t.inc("programs_whose_target_changed")
    if int(summary["reattach"]) > 0:
        t.inc("programs_with_observer_reattachment")
    t.distinct.add(m["name"])
    if len(t.samples) < 3:
        t.sample({"program": m["name"], "source": m["source"].split("id: c0 }\n")[1][:260], "summary": summary,
                  "props": m["props"]})


def shipped_header_is_current(tally):
    """What is explored above is the translation of a source; what a user compiles is the file the command
    leaves behind.  For pairs of programs that differ only in a binding expression (identical .ui): generate,
    replace the source, generate again in the same directory - the header on disk must be the translation
    of the current source."""
    import os
    import subprocess
    vd = vc.VDrive()
    progs_ = [p for p in programs("quick") if p["name"].endswith("/unconditional")][:6]
    # edits that keep every output at its length (another source object, another property, another constant)
    same = [{"name": f"same-length/{e}", "source": HEAD + f"    VObj {{ id: t; ri: {e} }}\n}}\n"}
            for e in ("b0.i + 1", "c0.i + 1", "c0.j + 1", "c0.j + 2", "b0.j + 2")]
    pairs = list(zip(progs_, progs_[1:] + progs_[:1])) + list(zip(same, same[1:] + same[:1]))
    with vc.scratch_dir("c02cli") as d:
        for a, b in pairs:
            want = vd.job({"id": 0, "source": b["source"], "modes": ["generate"], "type_name": "Doc"})["modes"]["generate"]
            first = vd.job({"id": 0, "source": a["source"], "modes": ["generate"], "type_name": "Doc"})["modes"]["generate"]
            if not vc.accepted(want) or not vc.accepted(first):
                continue
            for text in (a["source"], b["source"]):
                with open(os.path.join(d, "Doc.qml"), "w") as f:
                    f.write(text)
                p_ = subprocess.run([vc.QMLUIC_BIN, "generate-ui", "--foreign-types", vc.METATYPES, "--foreign-types", vc.VTYPES, "Doc.qml"],
                                    cwd=d, stdout=subprocess.PIPE, stderr=subprocess.PIPE, timeout=60)
                tally.inc("cli_regenerations")
                if p_.returncode != 0:
                    raise vc.MachineryError("the command rejected a program the library accepts: " + p_.stderr.decode("utf-8", "replace")[-400:])
            got = open(os.path.join(d, "uisupport_doc.h")).read()
            if got != want["header"]:
                tally.violation("stale:header-on-disk-is-not-the-translation-of-the-current-source",
                                {"program": b["name"], "source": b["source"], "previous_source": a["source"],
                                 "same_ui": first["ui"] == want["ui"]})
    vd.close()


def main(tier, t0):
    vc.ensure_vdrive()
    vc.ensure_cli()
    import qtmock
    qtmock.load_types()
    tally = vc.merge_tallies(vc.run_sharded(shard_work, {"tier": tier}))
    shipped_header_is_current(tally)
    c = tally.counts
    cov = {
        "states": c.get("states", 0),
        "transitions": c.get("transitions", 0),
        "traces_validated_against_impl": c.get("histories", 0),
        "evaluations": c.get("histories", 0),
        "distinct_nontrivial": c.get("programs_whose_target_changed", 0),
        "rule": "programs = read path x position (+ chains); per program an explicit-state breadth-first search "
                "over change histories from every defined valuation; every explored history is executed on the "
                "compiled generated code (fresh objects, replay) and the invariant target == expression value is "
                "checked after setup() and after every event; distinct_nontrivial = programs whose target "
                "actually changed during exploration",
        "exhaustive": True,
        "bound_completed": {"depth": 12, "closure": "see programs_explored_to_closure", "path_pairs": tier == "thorough", "domains": "int {0,1,2}, bool, pointers {null,b0,c0}"},
        "programs": c.get("programs", 0),
        "valuations": c.get("valuations", 0), "undefined_valuations": c.get("undefined_valuations", 0),
        "pruned_transitions_into_undefined_states": c.get("pruned", 0),
        "transitions_where_target_changed": c.get("target_changes", 0),
        "transitions_where_observers_or_connections_changed": c.get("reattach", 0),
        "programs_with_observer_reattachment": c.get("programs_with_observer_reattachment", 0),
        "max_connections_alive": c.get("max_connections", 0),
        "programs_explored_to_closure": c.get("programs_explored_to_closure", 0),
        "frontier_states_cut_by_depth_bound": c.get("frontier_states_cut_by_depth_bound", 0),
        "max_depth_reached": c.get("max_depth_reached", 0),
        "notify_clause_programs": c.get("notify_clause_programs", 0),
        "programs_not_compiling": c.get("programs_not_compiling", 0),
    }
    assumptions = [
        "signal/slot semantics of the model (engine/qtmock/qtmock_core.h): setters emit the notify signal iff the "
        "value changes, slots run synchronously in connection order, connects during an emission are not invoked "
        "by it, disconnected connections are skipped; object deletion is not modelled",
        "canonical state = valuation + observer slots {connected?, object} + multiset of live connections "
        "(sender, signal); the generated support object has no other mutable field between events",
    ]
    return vc.finish("C02", tier, LEVEL, tally, cov, assumptions, t0)


def replay(path):
    vc.ensure_vdrive()
    r = json.load(open(path))
    c = r["case"]
    print(c.get("source"))
    print("counterexample recorded:", c.get("counterexample"))
    for k, prog in enumerate(programs("quick")):
        if prog["name"] == c.get("program"):
            vd = vc.VDrive()
            t = vc.Tally()
            p = build_program(vd, k, prog, 3, t)
            vd.close()
            if p is not None:
                res = run_programs([p], "c02r")
                judge(t, p, res[p.pid])
            if t.violations:
                print(f"VIOLATION property=C02 replay={path}")
                for sig, cc in t.violations:
                    print("  ", sig, cc.get("counterexample", ""))
                return 1
            print("replay: holds now")
            return 0
    print(f"VIOLATION property=C02 replay={path}  (program not in the enumeration any more)")
    return 1
