"""C01  Generated binding code computes the value of its source expression.

Bounded-exhaustive programs x exhaustive states, executed on the real generated header compiled
against the Qt API model (E3):
  L1  operator matrix: every unary / binary / logical / ternary / cast / builtin form over every
      well-typed operand-kind tuple with every placement of {dynamic read, literal} per operand
      (folded and run-time paths and their mixtures), depth 1 complete and depth 2 over
      representative sub-expressions per type (incl. a fully constant one);
  L2  control-flow skeletons: every statement tree with <= k nodes (lib/progs.py) in value context;
  L3  switch family: every switch with <= 3 clauses x default position x clause-body menu, and
      switches nested in clause bodies (fall-through, break, conditional break, early return).
States: the full product of small domains of exactly the properties a document reads; states in
which the reference semantics is undefined are excluded, never judged.
"""
import itertools
import json

import harness
import progs
import refeval as rv
import reftypes as rt
import uiread
import vcommon as vc

LEVEL = "exploration"

DOC_HEAD = "import qmluic.QtWidgets\nQWidget {\n    id: root\n    VObj { id: a }\n    VObj { id: b0 }\n    VObj { id: c0 }\n"
SINK = {"I": "ri", "U": "ru", "D": "rd", "B": "rb", "S": "rs", "E": "re", "E2": "re2", "F": "rf", "P": "rp", "L": "rsl",
        "n": "ri", "s": "rs"}


def A(p):
    return ("rd", ("obj", "a"), p)


def B0(p):
    return ("rd", ("obj", "b0"), p)


def L(kind, v, text=None):
    return ("lit", kind, v) if text is None else ("lit", kind, v, text)


# --------------------------------------------------------------------------- L1 expressions

def l1_groups(tier):
    """Yields (group name, [expressions]) - a group shares operand properties and operator so that
    the states lost to undefinedness are few."""
    I_l = [L("n", 0), L("n", 1), L("n", 3), L("n", -1), L("n", 7)]
    I_ops = ["+", "-", "*", "/", "%", "&", "^", "|", "==", "!=", "<", "<=", ">", ">="]
    for op in I_ops:
        es = [("bin", op, A("i"), B0("i"))]
        for l in I_l:
            if op in ("/", "%") and l[2] == 0:
                continue
            es.append(("bin", op, A("i"), l))
            es.append(("bin", op, l, B0("i")))
        yield (f"I{op}", es)
    for op in ("<<", ">>"):
        es = [("bin", op, A("i"), B0("i"))]
        for l in (L("n", 0), L("n", 1), L("n", 4), L("n", 31)):
            es.append(("bin", op, A("i"), l))
        for l in (L("n", 1), L("n", 3), L("n", 1 << 20)):
            es.append(("bin", op, l, B0("i")))
        yield (f"I{op}", es)
    # constant sub-expressions folded at translation time inside a run-time expression
    fold_lits = [L("n", 7), L("n", -7), L("n", 3), L("n", -3), L("n", 1), L("n", 0), L("n", 2)]
    for op in ["+", "-", "*", "/", "%", "&", "^", "|", "<<", ">>", "<", "<=", ">", ">=", "==", "!="]:
        es = []
        for x, y in itertools.product(fold_lits, repeat=2):
            if op in ("/", "%") and y[2] == 0:
                continue
            if op in ("<<", ">>") and (y[2] < 0 or x[2] < 0):
                continue
            folded = ("bin", op, x, y)
            if op in ("<", "<=", ">", ">=", "==", "!="):
                es.append(("tern", folded, A("i"), B0("i")))
            else:
                es.append(("bin", "+", A("i"), folded))
        yield (f"Ifold{op}", es)
    # every comparison operator folded over less / equal / greater operand pairs of every comparable kind
    cmp_pairs = {"D": [(0.5, 2.0), (2.0, 0.5), (1.5, 1.5), (-1.5, -1.5)], "s": [("a", "b"), ("b", "a"), ("ab", "ab"), ("", "")],
                 "B": [(True, False), (False, True), (True, True), (False, False)]}
    for kind, pairs in cmp_pairs.items():
        ops = ("==", "!=") if kind == "B" else ("<", "<=", ">", ">=", "==", "!=")
        yield (f"{kind}cmpfold", [("tern", ("bin", op, L(kind, x), L(kind, y)), A("i"), B0("i")) for op in ops for x, y in pairs])
    yield ("Ecmpfold", [("tern", ("bin", op, L("E", x, f"VObj.M{x}"), L("E", y, f"VObj.M{y}")), A("i"), B0("i"))
                        for op in ("==", "!=") for x, y in ((0, 1), (1, 1), (2, 1))])
    # literal spellings decoded at translation time inside a run-time expression
    import literals
    str_spellings = ["\\b", "\\f", "\\n", "\\r", "\\t", "\\v", "\\0", "\\'", '\\"', "\\\\", "\\x41", "\\x7f", "\\x00",
                     "\\xe9", "\\u0041", "\\u00e9", "\\u2028", "\\u{41}", "\\u{1F600}", "\\ud83d\\ude00", "\\q", "\\/",
                     "a\\\nb", "\\0a", "x\\ty"]
    es = []
    for sp in str_spellings:
        v = literals.js_string_body(sp)
        if v is not None:
            es.append(("bin", "+", A("s"), L("s", v, '"' + sp + '"')))
            es.append(("bin", "+", L("s", v, "'" + sp + "'"), B0("s")))
    yield ("LitS", es)
    es = []
    for sp in ["0x10", "0X1f", "0b101", "0B11", "0o17", "0O7", "1_000", "017", "08", "00", "0", "2147483647"]:
        v = literals.js_number(sp)
        if v is not None and v[0] == "int":
            es.append(("bin", "+" if v[1] < 2147483647 else "&", A("i"), L("n", v[1], sp)))
    yield ("LitI", es)
    es = []
    for sp in ["1e2", "1E2", ".5", "5.", "0.5e-1", "1_0.2_5", "0.0", "1e+1", "2.5e0", "1_0e1_0"]:
        v = literals.js_number(sp)
        if v is not None and v[0] == "float":
            es.append(("bin", "+", A("d"), L("D", v[1], sp)))
    yield ("LitD", es)
    yield ("Dfold", [("bin", "+", A("d"), ("bin", op, L("D", x), L("D", y))) for op in ("+", "-", "*", "/")
                     for x, y in ((0.5, 2.0), (-1.5, 0.5), (2.0, -1.5))])
    yield ("Sfold", [("bin", "+", A("s"), ("bin", "+", L("s", x), L("s", y))) for x, y in (("a", "b"), ("", "c"), ("%1", ""))] +
           [("tern", ("bin", op, L("s", "a"), L("s", "b")), A("s"), B0("s")) for op in ("<", "==", ">=")])
    yield ("Bfold", [("tern", ("bin", op, L("B", x), L("B", y)), A("i"), B0("i")) for op in ("&&", "||", "==", "!=")
                     for x, y in itertools.product((True, False), repeat=2)] +
           [("tern", ("un", "!", L("B", True)), A("i"), B0("i")), ("bin", "+", A("i"), ("un", "-", L("n", 5))),
            ("bin", "+", A("i"), ("un", "~", L("n", 5))), ("bin", "+", A("i"), ("un", "-", ("un", "-", L("n", 5))))])
    yield ("Iun", [("un", "+", A("i")), ("un", "-", A("i")), ("un", "~", A("i")), ("un", "-", ("un", "-", A("i"))),
                   ("un", "~", ("un", "-", A("i")))])
    yield ("Imath", [("call", f, [x, y]) for f in ("Math.max", "Math.min")
                     for x, y in ((A("i"), B0("i")), (A("i"), L("n", 2)), (L("n", 2), B0("i")), (A("i"), A("j")))])
    yield ("Icast", [("as", A("i"), "double"), ("as", B0("d"), "int"), ("as", A("b"), "int"), ("as", A("e"), "int"),
                     ("as", A("u"), "int"), ("as", A("u"), "double"), ("as", L("n", 3), "double"),
                     ("as", A("f"), "int"), ("as", A("b"), "uint"), ("as", A("e"), "uint")])
    U_ops = ["+", "-", "*", "/", "%", "&", "^", "|", "==", "!=", "<", "<=", ">", ">="]
    for op in U_ops:
        es = [("bin", op, A("u"), B0("u"))]
        for l in (L("n", 1), L("n", 2), L("n", 3)):
            es.append(("bin", op, A("u"), l))
            es.append(("bin", op, l, B0("u")))
        yield (f"U{op}", es)
    yield ("Uun", [("un", "~", A("u"))])
    yield ("Umath", [("call", f, [x, y]) for f in ("Math.max", "Math.min")
                     for x, y in ((A("u"), B0("u")), (A("u"), L("n", 2)), (L("n", 2), B0("u")), (A("u"), L("n", 0)), (L("n", 1), A("u")))])
    D_l = [L("D", 0.5), L("D", 2.0), L("D", -1.5)]
    for op in ["+", "-", "*", "/", "==", "!=", "<", "<=", ">", ">="]:
        es = [("bin", op, A("d"), B0("d"))]
        for l in D_l:
            es.append(("bin", op, A("d"), l))
            es.append(("bin", op, l, B0("d")))
        yield (f"D{op}", es)
    yield ("Dun", [("un", "-", A("d")), ("un", "+", A("d")),
                   ("call", "Math.max", [A("d"), B0("d")]), ("call", "Math.min", [A("d"), L("D", 0.5)])])
    for op in ["&&", "||", "==", "!="]:
        es = [("bin", op, A("b"), B0("b"))]
        for l in (L("B", True), L("B", False)):
            es.append(("bin", op, A("b"), l))
            es.append(("bin", op, l, B0("b")))
        yield (f"B{op}", es)
    yield ("Bun", [("un", "!", A("b")), ("un", "!", ("un", "!", A("b"))),
                   ("un", "!", ("bin", "&&", A("b"), B0("b"))), ("bin", "||", ("un", "!", A("b")), B0("c"))])
    S_l = [L("s", ""), L("s", "a"), L("s", "b"), L("s", "%1x")]
    for op in ["+", "==", "!=", "<", "<=", ">", ">="]:
        es = [("bin", op, A("s"), B0("s"))]
        for l in S_l:
            es.append(("bin", op, A("s"), l))
            es.append(("bin", op, l, B0("s")))
        yield (f"S{op}", es)
    yield ("Smeth", [("meth", A("s"), "isEmpty", []), ("meth", L("s", "%1-%2-%1"), "arg", [A("s")]),
                     ("meth", A("s"), "arg", [B0("s")]), ("meth", L("s", "v=%1"), "arg", [A("i")]),
                     ("meth", ("meth", L("s", "%2/%1"), "arg", [A("s")]), "arg", [B0("i")]),
                     ("meth", L("s", "d=%1"), "arg", [A("d")]), ("meth", L("s", "u=%1"), "arg", [A("u")]),
                     ("meth", ("bin", "+", A("s"), L("s", "")), "isEmpty", [])])
    yield ("Eops", [("bin", "==", A("e"), B0("e")), ("bin", "!=", A("e"), L("E", 1, "VObj.M1")),
                    ("bin", "==", L("E", 2, "VObj.M2"), B0("e")), ("tern", A("b"), A("e"), L("E", 0, "VObj.M0"))])
    yield ("Fops", [("bin", op, x, y) for op in ("&", "|", "^", "==", "!=")
                    for x, y in ((A("f"), B0("f")), (A("f"), L("F", 2, "VObj.F1")), (L("F", 1, "VObj.F0"), B0("f")))])
    yield ("Pops", [("bin", "==", A("p"), B0("p")), ("bin", "!=", A("p"), L("null", None)),
                    ("bin", "==", L("null", None), B0("p")), ("bin", "==", A("p"), ("obj", "b0")),
                    ("tern", A("b"), A("p"), ("obj", "b0")), ("tern", A("b"), ("obj", "a"), L("null", None)),
                    ("rd", ("tern", A("b"), ("obj", "a"), ("obj", "b0")), "i"),
                    ("tern", ("bin", "!=", A("p"), L("null", None)), ("rd", A("p"), "i"), L("n", -1)),
                    ("bin", "&&", ("bin", "!=", A("p"), L("null", None)), ("rd", A("p"), "b"))])
    yield ("Lops", [("meth", A("sl"), "isEmpty", []), ("list", [A("s"), L("s", "x")]), ("list", [L("s", "x"), B0("s"), A("s")]),
                    ("tern", A("b"), A("sl"), ("list", [A("s")])),
                    ("tern", ("meth", A("sl"), "isEmpty", []), L("s", "none"), ("sub", A("sl"), L("n", 0))),
                    ("sub", ("list", [A("s"), B0("s")]), ("tern", A("b"), L("n", 0), L("n", 1)))])
    conds = [A("b"), ("bin", "<", A("i"), L("n", 2)), ("bin", "&&", A("b"), B0("b")), L("B", True)]
    yield ("Tern", [("tern", c, x, y) for c in conds
                    for x, y in ((A("i"), B0("i")), (L("n", 1), B0("i")), (A("i"), L("n", 2)), (L("n", 1), L("n", 2)))] +
           [("tern", A("b"), ("tern", A("c"), L("n", 1), L("n", 2)), ("tern", B0("b"), L("n", 3), L("n", 4))),
            ("tern", ("tern", A("b"), A("c"), B0("b")), L("n", 1), L("n", 2))])
    # depth 2 over representative sub-expressions (one fully constant)
    reps = {
        "I": [A("i"), ("bin", "+", L("n", 1), L("n", 2)), ("bin", "+", A("i"), L("n", 1)), ("bin", "*", B0("j"), L("n", 2))],
        "D": [A("d"), ("bin", "+", L("D", 0.5), L("D", 1.0)), ("bin", "*", B0("d"), L("D", 2.0))],
        "B": [A("b"), ("bin", "<", A("i"), L("n", 2)), ("un", "!", B0("c"))] +
             # operands that branch themselves (several basic blocks); quick has them in family L4
             ([("bin", "||", B0("b"), ("rd", ("obj", "c0"), "b")), ("bin", "&&", B0("b"), ("rd", ("obj", "c0"), "c")),
               ("tern", ("rd", ("obj", "c0"), "b"), B0("b"), B0("c"))] if tier == "thorough" else
              [("bin", "||", B0("b"), ("rd", ("obj", "c0"), "b"))]),
        "S": [A("s"), ("bin", "+", L("s", "x"), L("s", "y")), ("bin", "+", B0("s"), L("s", "z"))],
    }
    ops2 = {"I": ["+", "-", "*", "/", "%", "<", "==", "&", "|", ">>"] if tier == "quick" else I_ops + ["<<", ">>"],
            "D": ["+", "-", "*", "/", "<", ">="], "B": ["&&", "||", "==", "!="], "S": ["+", "==", "<"]}
    for k, rs in reps.items():
        for op in ops2[k]:
            es = [("bin", op, x, y) for x, y in itertools.product(rs, repeat=2)]
            yield (f"{k}2{op}", es)
    if tier == "thorough":
        for op1, op2 in itertools.product(["+", "-", "*", "/", "%"], repeat=2):
            es = []
            for x, y, z in itertools.product([A("i"), B0("i"), L("n", 3), L("n", -2)], repeat=3):
                es.append(("bin", op2, ("bin", op1, x, y), z))
                es.append(("bin", op1, x, ("bin", op2, y, z)))
            yield (f"I3{op1}{op2}", es)


def l1_documents(tier, pack=12):
    """-> (doc id, source, [(sink object, sink prop, kind, expr)])"""
    k = 0
    for gname, es in l1_groups(tier):
        pk = 1 if gname.startswith("Lit") else pack      # a spelling qmluic rejects must not take others with it
        for i in range(0, len(es), pk):
            chunk = es[i:i + pk]
            sinks = []
            body = []
            for j, e in enumerate(chunk):
                kind = rv.kind_of(e)
                kind = {"n": "I", "s": "S"}.get(kind, kind)
                prop = SINK[kind]
                body.append(f"    VObj {{ id: t{j}; {prop}: {rv.show(e)} }}\n")
                sinks.append((f"t{j}", prop, kind, e))
            src = DOC_HEAD + "".join(body) + "}\n"
            yield (f"L1/{gname}/{i // pk}", src, sinks)
            k += 1


# --------------------------------------------------------------------------- states

def states_for(read_keys):
    """Product of the small domains of the properties read; pointer reads add the pointee's props."""
    keys = []
    for kx in read_keys:
        if kx.startswith("*."):
            prop = kx[2:]
            for o in ("a", "b0"):
                if f"{o}.{prop}" not in keys:
                    keys.append(f"{o}.{prop}")
        elif kx not in keys:
            keys.append(kx)
    doms = [rv.DOMAINS[rv.PROP_KIND[k.split(".")[1]]] for k in keys]
    total = 1
    for d in doms:
        total *= len(d)
    if total > 600:
        # keep the product small: trim the widest domains (documents are built to avoid this)
        doms = [d[:4] if len(d) > 4 else d for d in doms]
    for combo in itertools.product(*doms):
        yield keys, dict(zip(keys, combo))


DEFAULTS = {"I": 0, "U": 0, "D": 0.0, "B": False, "S": "", "E": 0, "E2": 0, "F": 0, "P": None, "L": ()}


def full_state(st):
    """Fills in the default value of every property of the three source objects."""
    full = {}
    for o in ("a", "b0", "c0"):
        for p, k in rv.PROP_KIND.items():
            if not p.startswith("r") or p in ("ro",):
                full[f"{o}.{p}"] = DEFAULTS.get(k)
    full.update(st)
    return full


CTYPE = {"I": "int", "U": "uint", "B": "bool", "D": "double", "S": "const char16_t *", "E": "int", "E2": "int",
         "F": "int", "P": "int", "L": "int"}
OBJ_CODE = {None: 0, "a": 1, "b0": 2, "c0": 3}


def table_value(kind, v):
    if kind in ("I", "E", "E2", "F"):
        return str(v) if v > rv.INT_MIN else "(-2147483647 - 1)"
    if kind == "U":
        return f"{v}u"
    if kind == "B":
        return "true" if v else "false"
    if kind == "D":
        return float(v).hex()
    if kind == "S":
        return harness.cxx_str(v)[len("QString("):-1]
    if kind == "P":
        return str(OBJ_CODE[v])
    if kind == "L":
        return str(rv.DOMAINS["L"].index(tuple(v)))
    raise KeyError(kind)


def apply_field(key, kind, field):
    o, p = key.split(".")
    fn = f"{o}->set{p[0].upper()}{p[1:]}"
    if kind in ("I", "U", "B", "D"):
        return f"{fn}(s.{field});"
    if kind == "S":
        return f"{fn}(QString(s.{field}));"
    if kind == "E":
        return f"{fn}(VObj::Mode(s.{field}));"
    if kind == "E2":
        return f"{fn}(VObj::Mode2(s.{field}));"
    if kind == "F":
        return f"{fn}(VObj::Flags(s.{field}));"
    if kind == "P":
        return f"{fn}(objs[s.{field}]);"
    if kind == "L":
        return f"{fn}(LT[s.{field}]);"
    raise KeyError(kind)


def driver_for(keys, states, sinks):
    """C++ driver: a state table + one loop; per state fresh objects, apply state, setup(), print
    every sink (keeps the translation unit small: nothing is unrolled)."""
    kinds = [rv.PROP_KIND[k.split(".")[1]] for k in keys]
    fields = "; ".join(f"{CTYPE[kd]} k{i}" for i, kd in enumerate(kinds))
    rows = ",\n        ".join("{" + ", ".join(table_value(kd, st[k]) for k, kd in zip(keys, kinds)) + "}" for st in states)
    if not keys:
        fields, rows = "int dummy", ", ".join("{0}" for _ in states)
    lt = ", ".join(rv.cxx_value("L", v) for v in rv.DOMAINS["L"])
    sets = " ".join(apply_field(k, kd, f"k{i}") for i, (k, kd) in enumerate(zip(keys, kinds)))
    prints = " ".join(f'emit("@PID@", sid + ":{t}", verif::showValue({t}->{prop}()));' for t, prop, _k, _e in sinks)
    return f"""    struct St {{ {fields}; }};
    static const St S[] = {{
        {rows}
    }};
    static const QStringList LT[] = {{ {lt} }};
    for (size_t si = 0; si < sizeof(S) / sizeof(S[0]); ++si) {{
        const St &s = S[si]; (void)s;
        std::string sid = std::to_string(si);
        auto body = [&]() {{
        @SETUP@
        VObj *objs[] = {{nullptr, a, b0, c0}}; (void)objs;
        {sets}
        UiSupport::@PID@ sup(root, ui); sup.setup();
        {prints}
        }};
        VERIF_GUARD("@PID@", sid + ":*", body());
    }}"""


# --------------------------------------------------------------------------- judging

def prepare_l1(vd, cid, src, sinks, pid, t):
    r = vd.job({"id": cid, "source": src, "modes": ["generate"], "type_name": pid})
    if r.get("crashed") or r.get("timeout") or "modes" not in r or r["modes"]["generate"].get("status") == "panic":
        t.lost.append({"id": cid})
        return None
    g = r["modes"]["generate"]
    if r.get("has_syntax_error"):
        raise vc.MachineryError("generator produced a syntax error:\n" + src)
    if not vc.accepted(g):
        t.inc("documents_rejected")
        t.lost.append({"id": cid, "rejected": [d["msg"] for d in g["diagnostics"]][:3]})
        return None
    read_keys = []
    for _t, _p, _k, e in sinks:
        for kx in rv.reads(e):
            if kx not in read_keys:
                read_keys.append(kx)
    states = []
    keys = None
    for keys, st in states_for(read_keys):
        full = full_state(st)
        ok = True
        for _t, _p, _k, e in sinks:
            try:
                rv.ev(e, full)
            except rv.Undefined:
                ok = False
                break
        if ok:
            states.append(st)
        else:
            t.inc("states_excluded_undefined")
    if keys is None:
        keys, states = [], [{}]
    # constant-folded sinks live in the .ui, not in the header: read them from there
    ui = uiread.parse(g["ui"])
    const_vals = {}
    dyn_sinks = []
    for tname, prop, kind, e in sinks:
        el = uiread.find_object(ui, tname)
        pv = uiread.prop(el, prop) if el is not None else None
        if pv is not None:
            const_vals[tname] = pv.children[0]
        else:
            dyn_sinks.append((tname, prop, kind, e))
    prog = harness.Program(pid, g["ui"], g["header"], driver_for(keys, states, dyn_sinks),
                           {"cid": cid, "source": src, "sinks": sinks, "dyn": dyn_sinks, "keys": keys,
                            "states": states, "const": const_vals})
    return prog


def judge_l1(t, prog, res):
    m = prog.meta
    if res["compile_error"]:
        # an accepted program whose generated code does not compile computes / does nothing at all
        t.inc("programs_not_compiling")
        t.violation("generated-code-does-not-compile", {"id": m["cid"], "source": m.get("source"), "compile_error": res["compile_error"][-700:]})
        return
    if res["crash"]:
        what = "hang:generated-code-does-not-terminate" if res["crash"].startswith("timeout") else \
            "crash:generated-code-crashed-in-a-defined-state"
        t.violation(what, {"id": m["cid"], "source": m["source"], "crash": res["crash"][-600:]})
        return
    got = {}
    for state, value in res["lines"]:
        si, tname = state.split(":")
        got[(int(si), tname)] = value
    for si, st in enumerate(m["states"]):
        full = full_state(st)
        if (si, "*") in got:
            feat = got[(si, "*")].split(":")[0]
            t.violation(f"exception:{feat}", {"id": m["cid"], "source": m["source"], "state": st, "what": got[(si, "*")]})
            continue
        for tname, prop, kind, e in m["dyn"]:
            want = rv.show_value(kind, rv.ev(e, full))
            have = got.get((si, tname))
            t.inc("evaluations")
            t.distinct.add((rv.show(e), want))
            if have != want:
                op = e[1] if e[0] in ("bin", "un") else e[0]
                t.violation(f"value:{e[0]}:{op}:{kind}",
                            {"id": m["cid"], "expr": rv.show(e), "state": {k: st[k] for k in st}, "expected": want,
                             "observed": have, "source": DOC_HEAD + f"    VObj {{ id: t0; {prop}: {rv.show(e)} }}\n}}\n"})
    t.inc("programs", len(m["dyn"]))
    t.inc("folded_to_ui", len(m["const"]))


def shard_l1(shard, nshards, payload):
    tier = payload["tier"]
    vd = vc.worker_vdrive()
    t = vc.Tally()
    progsl = []
    for k, (cid, src, sinks) in enumerate(l1_documents(tier)):
        if k % nshards != shard:
            continue
        p = prepare_l1(vd, cid, src, sinks, f"P{k}", t)
        if p is not None:
            progsl.append(p)
    for i in range(0, len(progsl), 8):
        batch = progsl[i:i + 8]
        res = harness.run_batch(batch, tag=f"c01l1-{shard}")
        for p in batch:
            judge_l1(t, p, res[p.pid])
    if progsl:
        t.sample({"family": "L1", "source": progsl[0].meta["source"][-400:], "states": len(progsl[0].meta["states"])})
    return t


# --------------------------------------------------------------------------- L2 skeletons

def l2_programs(tier):
    kmax = 4 if tier == "thorough" else 3
    k = 0
    for sk in progs.skeletons(kmax):
        for wrapper in ("ret", "completion", "bare"):
            yield (k, sk, wrapper)
            k += 1


def prepare_l2(vd, k, sk, wrapper, t, label_style="const"):
    r = progs.Renderer("value", wrapper, label_style)
    text, ast = r.program(sk)
    src = DOC_HEAD + f"    VObj {{\n        id: t\n        ri: {text}\n    }}\n}}\n"
    pid = f"Q{k}"
    res = vd.job({"id": k, "source": src, "modes": ["generate"], "type_name": pid})
    if res.get("crashed") or res.get("timeout") or "modes" not in res or res["modes"]["generate"].get("status") == "panic":
        t.lost.append({"id": k})
        return None
    g = res["modes"]["generate"]
    if not vc.accepted(g, res.get("has_syntax_error")):
        t.inc("skeletons_rejected")
        return None
    keys = list(r.reads)
    states = []
    for _keys, st in states_for(keys):
        states.append(st)
    if not keys:
        states = [{}]
    ui = uiread.parse(g["ui"])
    el = uiread.find_object(ui, "t")
    pv = uiread.prop(el, "ri")
    meta = {"k": k, "source": src, "ast": ast, "keys": keys, "states": states, "skeleton": repr(sk), "wrapper": wrapper}
    if pv is not None:
        # folded to a constant: judge directly against the reference value (no state is read)
        meta["const"] = pv.children[0].text
        return ("const", meta)
    prog = harness.Program(pid, g["ui"], g["header"], driver_for(keys, states, [("t", "ri", "I", None)]), meta)
    return ("dyn", prog)


def ref_state(st):
    return dict(st)


def judge_l2(t, prog, res):
    m = prog.meta
    if res["compile_error"]:
        # an accepted program whose generated code does not compile computes / does nothing at all
        t.inc("programs_not_compiling")
        t.violation("generated-code-does-not-compile", {"id": m["k"], "source": m.get("source"), "compile_error": res["compile_error"][-700:]})
        return
    if res["crash"]:
        what = "hang:generated-code-does-not-terminate" if res["crash"].startswith("timeout") else \
            "crash:generated-code-crashed-in-a-defined-state"
        t.violation(what, {"id": m["k"], "source": m["source"], "crash": res["crash"][-600:]})
        return
    got = {}
    for state, value in res["lines"]:
        si, tname = state.split(":")
        got[(int(si), tname)] = value
    outcomes = set()
    for si, st in enumerate(m["states"]):
        want = progs.ref_eval(m["ast"], st)
        if (si, "*") in got:
            t.violation(f"exception:{got[(si, '*')].split(':')[0]}", {"id": m["k"], "source": m["source"], "state": st, "what": got[(si, "*")]})
            continue
        t.inc("evaluations")
        if want is None:
            t.inc("not-judged:void-result")
            continue
        have = got.get((si, "t"))
        outcomes.add(want)
        if have != str(want):
            t.violation("value:control-flow", {"id": m["k"], "skeleton": m["skeleton"], "wrapper": m["wrapper"],
                                                "state": st, "expected": want, "observed": have, "source": m["source"]})
    t.inc("programs")
    if len(outcomes) >= 2:
        t.inc("programs_with_two_or_more_outcomes")
    t.distinct.add(m["source"])


def shard_l2(shard, nshards, payload):
    tier = payload["tier"]
    vd = vc.worker_vdrive()
    t = vc.Tally()
    pl = []
    for k, sk, wrapper in l2_programs(tier):
        if k % nshards != shard:
            continue
        x = prepare_l2(vd, k, sk, wrapper, t)
        if x is None:
            continue
        if x[0] == "const":
            m = x[1]
            wants = {progs.ref_eval(m["ast"], st) for st in m["states"]}
            want = wants.pop() if len(wants) == 1 else "state-dependent"
            t.inc("evaluations")
            t.inc("folded_to_ui")
            if want is not None and m["const"] != str(want):
                t.violation("value:control-flow:folded", {"id": m["k"], "skeleton": m["skeleton"], "expected": want,
                                                          "observed": m["const"], "source": m["source"]})
        else:
            pl.append(x[1])
    for i in range(0, len(pl), 40):
        batch = pl[i:i + 40]
        res = harness.run_batch(batch, tag=f"c01l2-{shard}")
        for p in batch:
            judge_l2(t, p, res[p.pid])
    if pl:
        t.sample({"family": "L2", "skeleton": pl[-1].meta["skeleton"], "wrapper": pl[-1].meta["wrapper"],
                  "states": len(pl[-1].meta["states"])})
    return t


def l3_skeletons(tier):
    """Switch family: every switch with <= 3 clauses, the default clause in every position (or
    absent), every clause body from a menu (empty / effect / effect+break / break / return /
    conditional break + effect), alone and followed by a statement; plus switches nested in a
    clause body of another switch (inner break must leave the inner switch only)."""
    bodies = [[], [("A",)], [("A",), ("B",)], [("B",)], [("R",)], [("I", "c", [("B",)]), ("A",)]]
    for n in (1, 2, 3):
        for combo in itertools.product(bodies, repeat=n):
            for dpos in [None] + list(range(n)):
                sw = ("SW", [("d" if i == dpos else "c", list(b)) for i, b in enumerate(combo)])
                yield [sw]
                if n <= 2:
                    yield [sw, ("A",)]
    inner_shapes = [
        ("SW", [("c", [("A",), ("B",)]), ("d", [("A",)])]),
        ("SW", [("c", [("B",)]), ("c", [("A",)])]),
        ("SW", [("d", [("A",), ("B",)]), ("c", [("A",)])]),
        ("SW", [("c", [("I", "c", [("B",)]), ("A",)])]),
        ("SW", [("c", [("R",)]), ("d", [("B",)])]),
    ]
    for inner in inner_shapes:
        for tail in ([], [("A",)], [("A",), ("B",)], [("B",)]):
            for after in ([], [("A",)]):
                for second in ([("A",)], [("B",)], []):
                    for dpos in (None, 0, 1):
                        clauses = [["c", [inner] + tail], ["c", list(second)]]
                        if dpos is not None:
                            clauses[dpos][0] = "d"
                        yield [("SW", [tuple(c) for c in clauses])] + after


def l3_programs(tier):
    for sk in l3_skeletons(tier):
        yield sk, "const"
    # case labels that span several basic blocks (?:, &&): every two-clause switch of the menu, and the
    # three-clause ones over the first three bodies
    bodies = [[], [("A",)], [("A",), ("B",)], [("B",)], [("R",)], [("I", "c", [("B",)]), ("A",)]]
    for n, menu in ((2, bodies), (3, bodies[:3])):
        for combo in itertools.product(menu, repeat=n):
            for dpos in [None] + list(range(n)):
                sw = ("SW", [("d" if i == dpos else "c", list(b)) for i, b in enumerate(combo)])
                if sum(1 for lab, _b in sw[1] if lab == "c") < 2:
                    continue
                for style in ("ternary", "and"):
                    yield [sw, ("A",)], style


def shard_l3(shard, nshards, payload):
    vd = vc.worker_vdrive()
    t = vc.Tally()
    pl = []
    for k, (sk, style) in enumerate(l3_programs(payload["tier"])):
        if k % nshards != shard:
            continue
        x = prepare_l2(vd, 100000 + k, sk, "ret", t, style)
        if x is None:
            continue
        if x[0] == "dyn":
            pl.append(x[1])
    for i in range(0, len(pl), 40):
        batch = pl[i:i + 40]
        res = harness.run_batch(batch, tag=f"c01l3-{shard}")
        for p in batch:
            judge_l2(t, p, res[p.pid])
    return t


# --------------------------------------------------------------------------- L4 statement forms

def b_(st, k):
    return st[k]


L4_FORMS = [
    # (label, binding value, properties read, reference function)
    ("multi-declarator-let", "{ let x = a.i, y = x * 2; return y + x; }", ["a.i"], lambda st: st["a.i"] * 3),
    ("multi-declarator-const", "{ const k = 2, m = k + a.i; return m * k; }", ["a.i"], lambda st: (2 + st["a.i"]) * 2),
    ("multi-declarator-three", "{ let x = a.i, y = x + b0.i, z = y * x; return z - y; }", ["a.i", "b0.i"],
     lambda st: (st["a.i"] + st["b0.i"]) * st["a.i"] - (st["a.i"] + st["b0.i"])),
    ("multi-declarator-mixed-const-dynamic", "{ let k = 3, x = a.i + k, m = k * 2; return x * m; }", ["a.i"], lambda st: (st["a.i"] + 3) * 6),
    ("declarator-shadowing", "{ let x = a.i; { let x = b0.i, y = x + 1; if (y > 1) { return y; } } return x; }", ["a.i", "b0.i"],
     lambda st: st["b0.i"] + 1 if st["b0.i"] + 1 > 1 else st["a.i"]),
    ("let-assigned-later", "{ let x = 0; if (a.b) { x = a.i; } else { x = b0.i; } let y = x; x = 5; return y * 10 + x; }",
     ["a.b", "a.i", "b0.i"], lambda st: (st["a.i"] if st["a.b"] else st["b0.i"]) * 10 + 5),
    ("declarator-uses-ternary", "{ let x = a.b ? a.i : b0.i, y = x + (a.b ? 1 : 2); return y; }", ["a.b", "a.i", "b0.i"],
     lambda st: (st["a.i"] if st["a.b"] else st["b0.i"]) + (1 if st["a.b"] else 2)),
    ("let-in-case-does-not-leak", "{ let x = a.j + 10; switch (a.i) { case 1: let x = 7; if (x > 100) { return x; } break; default: break; } return x; }",
     ["a.i", "a.j"], lambda st: st["a.j"] + 10),
    ("let-in-case-visible-after-fall-through", "{ let r = 0; switch (a.i) { case 1: let k = 5; r = k; case 2: r = r + 1; break; default: r = 9; } return r; }",
     ["a.i"], lambda st: {1: 6, 2: 1}.get(st["a.i"], 9)),
    ("const-in-default-does-not-leak", "{ const c = 4; switch (a.i) { default: const c = 40; if (c < 0) { return c; } } return c; }", ["a.i"], lambda st: 4),
    ("and-right-or", "(a.b && (b0.b || c0.b)) ? 1 : 0", ["a.b", "b0.b", "c0.b"], lambda st: int(st["a.b"] and (st["b0.b"] or st["c0.b"]))),
    ("and-right-ternary", "(a.b && (c0.b ? b0.b : b0.c)) ? 1 : 0", ["a.b", "c0.b", "b0.b", "b0.c"],
     lambda st: int(st["a.b"] and (st["b0.b"] if st["c0.b"] else st["b0.c"]))),
    ("or-right-and", "(a.b || (b0.b && c0.b)) ? 1 : 0", ["a.b", "b0.b", "c0.b"], lambda st: int(st["a.b"] or (st["b0.b"] and st["c0.b"]))),
    ("or-right-ternary", "(a.b || (c0.b ? b0.b : b0.c)) ? 1 : 0", ["a.b", "c0.b", "b0.b", "b0.c"],
     lambda st: int(st["a.b"] or (st["b0.b"] if st["c0.b"] else st["b0.c"]))),
    ("and-right-nested", "(a.b && (b0.b || (c0.b && a.c))) ? 1 : 0", ["a.b", "b0.b", "c0.b", "a.c"],
     lambda st: int(st["a.b"] and (st["b0.b"] or (st["c0.b"] and st["a.c"])))),
    ("and-left-branches", "((a.b || b0.b) && c0.b) ? 1 : 0", ["a.b", "b0.b", "c0.b"], lambda st: int((st["a.b"] or st["b0.b"]) and st["c0.b"])),
    ("not-of-and-or", "!(a.b && (b0.b || c0.b)) ? 1 : 0", ["a.b", "b0.b", "c0.b"], lambda st: int(not (st["a.b"] and (st["b0.b"] or st["c0.b"])))),
    ("ternary-condition-is-ternary", "((a.b ? b0.b : c0.b) ? a.i : b0.i)", ["a.b", "b0.b", "c0.b", "a.i", "b0.i"],
     lambda st: st["a.i"] if (st["b0.b"] if st["a.b"] else st["c0.b"]) else st["b0.i"]),
    ("logical-in-let-in-branch", "{ let r = 0; if (a.b) { let z = b0.b && (c0.b || a.c); r = z ? 1 : 2; } return r; }",
     ["a.b", "b0.b", "c0.b", "a.c"], lambda st: (1 if (st["b0.b"] and (st["c0.b"] or st["a.c"])) else 2) if st["a.b"] else 0),
    ("comparison-of-logicals", "((a.b && b0.b) == (c0.b || a.c)) ? 1 : 0", ["a.b", "b0.b", "c0.b", "a.c"],
     lambda st: int((st["a.b"] and st["b0.b"]) == (st["c0.b"] or st["a.c"]))),
    # name resolution: a local wins over everything the context offers under the same name, for as long as it is in scope
    ("local-named-like-an-object-id", "{ let b0 = a; return b0.i; }", ["a.i", "b0.i"], lambda st: st["a.i"]),
    ("local-named-like-another-object-id", "{ let a = b0; return a.i * 2; }", ["a.i", "b0.i"], lambda st: st["b0.i"] * 2),
    ("local-named-like-an-object-id-from-ternary", "{ let b0 = c0.b ? a : c0; return b0.i; }", ["c0.b", "a.i", "c0.i", "b0.i"],
     lambda st: st["a.i"] if st["c0.b"] else st["c0.i"]),
    ("local-named-like-a-property-of-this", "{ let i = a.i + 1; return i; }", ["a.i"], lambda st: st["a.i"] + 1),
    ("const-named-like-a-property-of-this", "{ const j = 5; return j + a.i; }", ["a.i"], lambda st: 5 + st["a.i"]),
    ("local-named-like-an-object-id-ends-with-its-block", "{ let r = b0.i; { let b0 = a; r = r + b0.i; } return r * 10 + b0.i; }", ["a.i", "b0.i"],
     lambda st: (st["b0.i"] + st["a.i"]) * 10 + st["b0.i"]),
    # (reading `a` in the default clause would be a read of the case-scoped local before its declaration: undefined, not written)
    ("local-named-like-an-object-id-in-a-case", "{ let r = 0; switch (c0.i) { case 1: let a = b0; r = a.i; break; default: r = 7; } return r * 100 + a.i; }",
     ["c0.i", "a.i", "b0.i"], lambda st: (st["b0.i"] if st["c0.i"] == 1 else 7) * 100 + st["a.i"]),
    ("local-named-like-an-object-id-assigned-later", "{ let b0 = a; if (c0.b) { b0 = c0; } return b0.i; }", ["c0.b", "a.i", "c0.i", "b0.i"],
     lambda st: st["c0.i"] if st["c0.b"] else st["a.i"]),
    ("arith-of-ternaries", "(a.b ? a.i : 1) * (b0.b ? b0.i : 2) + (c0.b ? 1 : 0)", ["a.b", "a.i", "b0.b", "b0.i", "c0.b"],
     lambda st: (st["a.i"] if st["a.b"] else 1) * (st["b0.i"] if st["b0.b"] else 2) + (1 if st["c0.b"] else 0)),
]


def shard_l4(shard, nshards, payload):
    vd = vc.worker_vdrive()
    t = vc.Tally()
    pl = []
    for k, (label, text, keys, fn) in enumerate(L4_FORMS):
        if k % nshards != shard:
            continue
        src = DOC_HEAD + f"    VObj {{\n        id: t\n        ri: {text}\n    }}\n}}\n"
        pid = f"X{k}"
        res = vd.job({"id": k, "source": src, "modes": ["generate"], "type_name": pid})
        g = res["modes"]["generate"]
        if res.get("has_syntax_error"):
            raise vc.MachineryError("L4 document does not parse:\n" + src)
        if not vc.accepted(g, False):
            t.violation("rejected-a-documented-statement-form:" + label, {"source": src, "diagnostics": g.get("diagnostics")})
            continue
        states = [st for _k, st in states_for(keys)]
        pl.append(harness.Program(pid, g["ui"], g["header"], driver_for(keys, states, [("t", "ri", "I", None)]),
                                  {"label": label, "source": src, "fn": fn, "states": states}))
    res = harness.run_batch(pl, tag=f"c01l4-{shard}") if pl else {}
    for p in pl:
        r = res[p.pid]
        m = p.meta
        if r["compile_error"]:
            t.violation("generated-code-does-not-compile", {"id": m["label"], "source": m["source"], "compile_error": r["compile_error"][-700:]})
            continue
        if r["crash"]:
            t.violation("crash:generated-code-crashed-in-a-defined-state", {"id": m["label"], "source": m["source"], "crash": r["crash"][-600:]})
            continue
        got = {}
        for state, value in r["lines"]:
            si, tname = state.split(":")
            got[(int(si), tname)] = value
        outcomes = set()
        for si, st in enumerate(m["states"]):
            want = m["fn"](st)
            t.inc("evaluations")
            outcomes.add(want)
            if (si, "*") in got:
                t.violation(f"exception:{got[(si, '*')].split(':')[0]}", {"id": m["label"], "source": m["source"], "state": st})
            elif got.get((si, "t")) != str(want):
                t.violation(f"value:statement-form:{m['label']}", {"source": m["source"], "state": st, "expected": want, "observed": got.get((si, "t"))})
        t.inc("programs")
        if len(outcomes) >= 2:
            t.inc("programs_with_two_or_more_outcomes")
        t.distinct.add(m["source"])
    return t


def main(tier, t0):
    vc.ensure_vdrive()
    import qtmock
    qtmock.load_types()
    t1 = vc.merge_tallies(vc.run_sharded(shard_l1, {"tier": tier}))
    t2 = vc.merge_tallies(vc.run_sharded(shard_l2, {"tier": tier}))
    t3 = vc.merge_tallies(vc.run_sharded(shard_l3, {"tier": tier}))
    t4 = vc.merge_tallies(vc.run_sharded(shard_l4, {"tier": tier}))
    tally = vc.Tally().merge(t1).merge(t2).merge(t3).merge(t4)
    c = tally.counts
    cov = {
        "evaluations": c.get("evaluations", 0),
        "distinct_nontrivial": len(tally.distinct),
        "rule": "an evaluation = one compiled eval function run in one state and compared with the reference "
                "value; distinct = (expression, value) pairs for L1 and distinct skeleton programs for L2",
        "exhaustive": True,
        "bound_completed": {"L1": "depth 1 complete, depth 2 over representative sub-expressions",
                            "L2_skeleton_nodes": 4 if tier == "thorough" else 3},
        "programs": c.get("programs", 0),
        "programs_with_two_or_more_outcomes": c.get("programs_with_two_or_more_outcomes", 0),
        "folded_to_ui": c.get("folded_to_ui", 0),
        "states_excluded_undefined": c.get("states_excluded_undefined", 0),
        "skeletons_rejected": c.get("skeletons_rejected", 0),
        "documents_rejected": c.get("documents_rejected", 0),
        "programs_not_compiling": c.get("programs_not_compiling", 0),
    }
    assumptions = [
        "the Qt API model (engine/qtmock) renders Qt's value semantics of int/uint/double/bool/QString/QList and "
        "g++ renders C++17; states where the reference semantics is undefined are excluded",
        "enum variants are numbered by the model (flags get distinct bits), consistently on both sides",
    ]
    return vc.finish("C01", tier, LEVEL, tally, cov, assumptions, t0)


def replay(path):
    vc.ensure_vdrive()
    r = json.load(open(path))
    src = r["case"]["source"]
    print(src)
    print("state:", r["case"].get("state"), "expected:", r["case"].get("expected"), "observed at the time:", r["case"].get("observed"))
    vd = vc.VDrive()
    g = vd.job({"id": 0, "source": src, "modes": ["generate"]})["modes"]["generate"]
    vd.close()
    print(g.get("header"))
    print(f"VIOLATION property=C01 replay={path}  (re-run the check to re-judge)")
    return 1
