"""C12  Layout items land in the documented cells; per-row/column settings follow.

Operation sequences (children with optional attachments) against a reference cursor model
written from the documented flow rule (conventions pinned by the two LayoutIndexCounter unit
tests): every sequence of <= 3 (thorough: 4) children over 11 position options x 2 flows x 4
counts for grid layouts, the same for form layouts (fixed 2 columns); deviation-bounded
(<= 2 deviations) row/column settings on 6 position patterns; span/alignment copying; box
layout stretch sequences.
"""
import itertools
import json

import qml
import uiread
import vcommon as vc

LEVEL = "exploration"
MAX_INDEX = 65535
MAX_COUNT = 65536

# position options of a child: (row, column) attachment, None = absent
POS = [(None, None), (0, None), (2, None), (None, 0), (None, 1), (None, 2), (1, 1), (2, 0),
       (-1, None), (None, -1), (None, 70000),
       # beyond 16 and 32 bits (values whose low 32 bits would be acceptable indices)
       (65536, None), (4294967297, None), (None, 4294967296), (-4294967295, None), (None, 2147483648)]
FLOWS = ["LeftToRight", "TopToBottom"]
COUNTS = [None, 1, 2, 3]
WILD_COUNTS = [0, -1, 65536, 65537, 2147483648, 4294967296, 4294967298, -4294967294]     # judged on a 2-child grid


class Reject(Exception):
    pass


class Cursor:
    """Reference model of the flow rule."""

    def __init__(self, flow, count):
        self.flow = flow
        self.count = count if count is not None else MAX_COUNT
        self.r = 0
        self.c = 0

    def place(self, row, col):
        if self.flow == "LeftToRight":
            max_r, max_c = MAX_INDEX, self.count - 1
        else:
            max_r, max_c = self.count - 1, MAX_INDEX
        for v, mx in ((row, max_r), (col, max_c)):
            if v is not None and (v < 0 or v > mx):
                raise Reject("index out of range")
        if row is not None and col is not None:
            self.r, self.c = row, col
        elif row is not None:
            self.r = row
            if self.flow == "LeftToRight":
                self.c = 0
        elif col is not None:
            self.c = col
            if self.flow == "TopToBottom":
                self.r = 0
        cur = (self.r, self.c)
        if self.flow == "LeftToRight":
            self.c += 1
            if self.c >= self.count:
                self.c = 0
                self.r += 1
        else:
            self.r += 1
            if self.r >= self.count:
                self.r = 0
                self.c += 1
        return cur


def child(i, row=None, col=None, extra=()):
    o = qml.Obj("QLabel", f"c{i}")
    if row is not None:
        o.add(qml.B("QLayout.row", str(row)))
    if col is not None:
        o.add(qml.B("QLayout.column", str(col)))
    for k, v in extra:
        o.add(qml.B("QLayout." + k, str(v)))
    return o


def grid_doc(layout_cls, flow, count, kids):
    lay = qml.Obj(layout_cls, "lay")
    if layout_cls == "QGridLayout":
        if flow != "LeftToRight" or count is None or True:
            pass
        if flow == "TopToBottom":
            lay.add(qml.B("flow", "QGridLayout.TopToBottom"))
            if count is not None:
                lay.add(qml.B("rows", str(count)))
        else:
            if count is not None:
                lay.add(qml.B("columns", str(count)))
    for k in kids:
        lay.add(k)
    return qml.Obj("QWidget", "root", [lay])


def parse_array(s):
    try:
        return [int(x) for x in s.split(",")] if s is not None else None
    except ValueError:
        return ["malformed:" + s]       # agrees with nothing


def arrays_agree(attr, explicit, default):
    """attr: parsed list or None; explicit: {index: value}."""
    if not explicit:
        return attr is None or all(v == default for v in attr)
    if attr is None:
        return False
    if len(attr) <= max(explicit):
        return False
    for i, v in enumerate(attr):
        if explicit.get(i, default) != v:
            return False
    return True


SETTINGS = [("rowStretch", "rowstretch", "row", 1), ("columnStretch", "columnstretch", "col", 1),
            ("rowMinimumHeight", "rowminimumheight", "row", 0),
            ("columnMinimumWidth", "columnminimumwidth", "col", 0)]


def model_grid(layout_cls, flow, count, kids_spec, swapped=()):
    """kids_spec: [(row, col, {setting: value}, rowspan, colspan, alignment)] ->
    (cells, explicit arrays) or raises Reject."""
    if layout_cls == "QFormLayout":
        cur = Cursor("LeftToRight", 2)
    else:
        if count is not None and not (1 <= count <= MAX_COUNT):
            raise Reject("bad count")
        cur = Cursor(flow, count)
    cells = []
    arrays = {s[0]: {} for s in SETTINGS}
    rejected = None
    for (row, col, settings, *_rest) in kids_spec:
        try:
            r, c = cur.place(row, col)
        except Reject as e:
            # qmluic keeps going with the index treated as absent; the document is rejected anyway
            rejected = str(e)
            r, c = cur.place(None if (row is not None and (row < 0 or row > (MAX_INDEX if cur.flow == "LeftToRight" else cur.count - 1))) else row,
                             None if (col is not None and (col < 0 or col > (cur.count - 1 if cur.flow == "LeftToRight" else MAX_INDEX))) else col)
        cells.append((r, c))
        if layout_cls == "QGridLayout":
            for name, _attr, axis, _d in SETTINGS:
                if name in settings:
                    idx = r if (axis == "row") != (name in swapped) else c
                    old = arrays[name].get(idx)
                    if old is not None and old != settings[name]:
                        rejected = rejected or "conflicting values"
                    else:
                        arrays[name][idx] = settings[name]
    if rejected:
        raise Reject(rejected)
    return cells, arrays


def explain_axis(layout_cls, flow, count, kids_spec, observed_accept):
    """If the observed verdict is exactly what the model gives when one setting is recorded
    along the wrong axis, name that setting (keeps the known-finding signature narrow)."""
    for name, _attr, axis, _d in SETTINGS:
        try:
            model_grid(layout_cls, flow, count, kids_spec, swapped=(name,))
            verdict = True
        except Reject:
            verdict = False
        if verdict == observed_accept and any(name in k[2] for k in kids_spec):
            return f"array-index:{name}-recorded-at-{'column' if axis == 'row' else 'row'}-index"
    return None


def judge_grid(t, vd, cid, layout_cls, flow, count, kids_spec, family):
    kids = []
    for i, (row, col, settings, rs, cs, al) in enumerate(kids_spec):
        extra = list(settings.items())
        if rs is not None:
            extra.append(("rowSpan", rs))
        if cs is not None:
            extra.append(("columnSpan", cs))
        if al is not None:
            extra.append(("alignment", al))
        kids.append(child(i, row, col, extra))
    root = grid_doc(layout_cls, flow, count, kids)
    src = qml.render(root, oneline=True)
    case = {"id": cid, "family": family, "source": src,
            "spec": {"layout": layout_cls, "flow": flow, "count": count,
                     "children": [[r, c, s, rs, cs, al] for (r, c, s, rs, cs, al) in kids_spec]}}
    r = vd.job({"id": cid, "source": src, "modes": ["generate"]})
    if r.get("crashed") or r.get("timeout") or "modes" not in r or \
            r["modes"]["generate"].get("status") == "panic":
        t.lost.append({"id": cid})
        return
    g = r["modes"]["generate"]
    t.inc("documents")
    t.inc("family:" + family)
    t.distinct.add(src)
    acc = vc.accepted(g, r.get("has_syntax_error"))
    try:
        cells, arrays = model_grid(layout_cls, flow, count, kids_spec)
    except Reject as e:
        t.inc("expected_reject")
        if acc:
            t.violation(explain_axis(layout_cls, flow, count, kids_spec, acc) or
                        "accepted:" + str(e).replace(" ", "-"), dict(case, rule=str(e)))
        return
    t.inc("expected_accept")
    if not acc:
        t.violation(explain_axis(layout_cls, flow, count, kids_spec, acc) or
                    "rejected-a-valid-layout", dict(case, diagnostics=g.get("diagnostics")))
        return
    lay = uiread.find_object(uiread.parse(g["ui"]), "lay")
    items = lay.findall("item")
    if len(items) != len(kids_spec):
        t.violation("item-count", dict(case, got=len(items)))
        return
    for i, (it, (er, ec), spec) in enumerate(zip(items, cells, kids_spec)):
        t.inc("cells_checked")
        got = (it.attrs.get("row"), it.attrs.get("column"))
        if got != (str(er), str(ec)):
            t.violation(f"cell:{'form' if layout_cls == 'QFormLayout' else flow}",
                        dict(case, child=i, expected=[er, ec], got=list(got)))
            return
        name = it.children[0].attrs.get("name") if it.children else None
        if name != f"c{i}":
            t.violation("item-order", dict(case, child=i, got=name))
            return
        _r, _c, _s, rs, cs, al = spec
        for attr, want in (("rowspan", rs), ("colspan", cs)):
            if (it.attrs.get(attr) is None) != (want is None) or \
                    (want is not None and it.attrs.get(attr) != str(want)):
                t.violation(f"span-not-copied:{attr}", dict(case, child=i, got=it.attrs.get(attr)))
        if al is not None:
            want = al.replace("Qt.", "Qt::").replace(" | ", "|")
            if it.attrs.get("alignment") != want:
                t.violation("alignment-not-copied", dict(case, child=i, got=it.attrs.get("alignment"), expected=want))
        elif "alignment" in it.attrs:
            t.violation("alignment-invented", dict(case, child=i, got=it.attrs.get("alignment")))
    if layout_cls == "QGridLayout":
        for name, attr, axis, default in SETTINGS:
            got = parse_array(lay.attrs.get(attr))
            if not arrays_agree(got, arrays[name], default):
                # classify: would the array be right if recorded along the other axis?
                other = {}
                for (er, ec), spec in zip(cells, kids_spec):
                    if name in spec[2]:
                        other[ec if axis == "row" else er] = spec[2][name]
                if arrays_agree(got, other, default):
                    sig = f"array-index:{name}-recorded-at-{'column' if axis == 'row' else 'row'}-index"
                else:
                    sig = f"array:{name}"
                t.violation(sig, dict(case, attribute=attr, expected_explicit=arrays[name], got=got))
            elif arrays[name]:
                t.inc("arrays_checked")
    else:
        for _n, attr, _a, _d in SETTINGS:
            if attr in lay.attrs:
                t.violation("form-layout-array-attribute", dict(case, attribute=attr))


def grid_position_jobs(tier):
    maxlen = 4 if tier == "thorough" else 3
    for layout_cls in ("QGridLayout", "QFormLayout"):
        flows = FLOWS if layout_cls == "QGridLayout" else ["LeftToRight"]
        counts = COUNTS if layout_cls == "QGridLayout" else [None]
        for flow in flows:
            for count in counts:
                for n in range(1, maxlen + 1):
                    for seq in itertools.product(POS, repeat=n):
                        yield ("positions", layout_cls, flow, count,
                               [(r, c, {}, None, None, None) for (r, c) in seq])
    # bad counts
    for flow in FLOWS:
        for count in WILD_COUNTS:
            yield ("counts", "QGridLayout", flow, count, [(None, None, {}, None, None, None)] * 2)


PATTERNS = [
    # (flow, count, [(row, col)...]) chosen so that row != column for most children
    ("LeftToRight", 3, [(None, None)] * 5),
    ("LeftToRight", 2, [(None, 1), (None, None), (2, None), (None, None)]),
    ("TopToBottom", 3, [(None, None)] * 5),
    ("TopToBottom", 2, [(1, None), (None, None), (None, 2), (None, None)]),
    ("LeftToRight", None, [(0, 2), (1, 0), (3, 1), (0, 3)]),
    ("TopToBottom", None, [(2, 0), (0, 1), (1, 3), (3, 0)]),
]


def settings_jobs(tier):
    vals = {"rowStretch": (2, 3), "columnStretch": (4, 5), "rowMinimumHeight": (6, 7),
            "columnMinimumWidth": (8, 9)}
    for flow, count, cells in PATTERNS:
        n = len(cells)
        devs = [(i, name, v) for i in range(n) for name in vals for v in vals[name]]
        combos = [()] + [(d,) for d in devs] + list(itertools.combinations(devs, 2))
        if tier == "thorough":
            trip = list(itertools.combinations(devs, 3))
            combos += trip[::7]
        for combo in combos:
            if len({(i, name) for (i, name, _v) in combo}) != len(combo):
                continue   # same child, same setting twice is a duplicate binding (C04/C20)
            spec = []
            for i, (r, c) in enumerate(cells):
                s = {name: v for (j, name, v) in combo if j == i}
                spec.append((r, c, s, None, None, None))
            yield ("settings", "QGridLayout", flow, count, spec)


def span_jobs():
    opts = list(itertools.product([None, 2], [None, 2],
                                  [None, "Qt.AlignLeft", "Qt.AlignRight | Qt.AlignTop"]))
    for layout_cls, flow, count in (("QGridLayout", "LeftToRight", 2), ("QGridLayout", "TopToBottom", 2),
                                    ("QFormLayout", "LeftToRight", None)):
        for a in opts:
            for b in opts:
                yield ("spans", layout_cls, flow, count,
                       [(None, None, {}, a[0], a[1], a[2]), (None, None, {}, b[0], b[1], b[2])])


def other_axis_jobs():
    """The count of the axis the flow does not wrap at (LeftToRight + rows, TopToBottom + columns) is given too: it does
    not change the cells; and per-row/column settings on children of a form layout are not supported: diagnosed."""
    for flow, main, other in (("LeftToRight", "columns", "rows"), ("TopToBottom", "rows", "columns")):
        for count in (None, 2):
            for oc in (1, 2, 5):
                yield ("other-axis", flow, main, count, other, oc)


def judge_other_axis(t, vd, cid, flow, main, count, other, oc):
    lay = qml.Obj("QGridLayout", "lay")
    if flow == "TopToBottom":
        lay.add(qml.B("flow", "QGridLayout.TopToBottom"))
    if count is not None:
        lay.add(qml.B(main, str(count)))
    lay.add(qml.B(other, str(oc)))
    for i in range(5):
        lay.add(child(i))
    src = qml.render(qml.Obj("QWidget", "root", [lay]), oneline=True)
    case = {"id": cid, "family": "other-axis", "source": src, "other_axis": [flow, main, count, other, oc]}
    r = vd.job({"id": cid, "source": src, "modes": ["generate"]})
    if "modes" not in r or r["modes"]["generate"].get("status") == "panic":
        t.lost.append({"id": cid})
        return
    g = r["modes"]["generate"]
    t.inc("documents")
    t.inc("family:other-axis")
    t.distinct.add(src)
    if not vc.accepted(g, r.get("has_syntax_error")):
        t.violation("rejected-a-valid-layout", dict(case, diagnostics=g.get("diagnostics")))
        return
    cur = Cursor(flow, count)
    e = uiread.find_object(uiread.parse(g["ui"]), "lay")
    for i, it in enumerate(e.findall("item")):
        want = cur.place(None, None)
        t.inc("cells_checked")
        if (it.attrs.get("row"), it.attrs.get("column")) != (str(want[0]), str(want[1])):
            t.violation(f"cell:{flow}", dict(case, child=i, expected=list(want), got=[it.attrs.get("row"), it.attrs.get("column")]))
            return


def form_settings_jobs():
    for name in ("rowStretch", "columnStretch", "rowMinimumHeight", "columnMinimumWidth"):
        for pos in (0, 1, 2):
            yield (name, pos)


def judge_form_setting(t, vd, cid, name, pos):
    lay = qml.Obj("QFormLayout", "lay")
    for i in range(3):
        lay.add(child(i, extra=[(name, 2)] if i == pos else []))
    src = qml.render(qml.Obj("QWidget", "root", [lay]), oneline=True)
    case = {"id": cid, "family": "form-settings", "source": src, "form_setting": [name, pos]}
    r = vd.job({"id": cid, "source": src, "modes": ["generate"]})
    if "modes" not in r or r["modes"]["generate"].get("status") == "panic":
        t.lost.append({"id": cid})
        return
    g = r["modes"]["generate"]
    t.inc("documents")
    t.inc("family:form-settings")
    t.distinct.add(src)
    if vc.accepted(g, r.get("has_syntax_error")):
        e = uiread.find_object(uiread.parse(g["ui"]), "lay")
        # accepted: then the setting must not surface as an attribute uic does not know for a form layout
        for _n, attr, _a, _d in SETTINGS:
            if attr in e.attrs:
                t.violation("form-layout-array-attribute", dict(case, attribute=attr))
                return
        t.violation("accepted:setting-without-effect-on-a-form-layout", case)


def item_kind_jobs():
    """Spans and alignment are copied to the item whatever the item holds (widget, nested layout, spacer)."""
    for lay in ("QGridLayout", "QFormLayout", "QVBoxLayout", "QHBoxLayout"):
        for kind in ("QLabel", "QWidget", "QVBoxLayout", "QGridLayout", "QFormLayout", "QSpacerItem"):
            for al in (None, "Qt.AlignLeft", "Qt.AlignRight | Qt.AlignTop", "Qt.AlignCenter"):
                for span in ((None, None), (2, None), (None, 2), (2, 3)):
                    if span != (None, None) and lay != "QGridLayout":
                        continue
                    yield (lay, kind, al, span)
    # every way of writing a union of up to four flags (grouping, order): the item gets exactly those flags
    for lay in ("QGridLayout", "QVBoxLayout"):
        for al in ALIGN_SPELLINGS:
            yield (lay, "QLabel", al, (None, None))


def _groupings(flags):
    """Every full parenthesisation of the flags in the given order."""
    if len(flags) == 1:
        return [flags[0]]
    out = []
    for k in range(1, len(flags)):
        for l in _groupings(flags[:k]):
            for r in _groupings(flags[k:]):
                out.append(f"({l} | {r})")
    return out


def _align_spellings():
    fl = ["Qt.AlignLeft", "Qt.AlignTop", "Qt.AlignAbsolute", "Qt.AlignBaseline"]
    out = []
    for n in (2, 3, 4):
        for perm in itertools.permutations(fl[:n]):
            for g in _groupings(list(perm)):
                out.append(g[1:-1])        # the outermost pair of parentheses is dropped
    out.append("(Qt.AlignLeft | Qt.AlignTop)")
    return sorted(set(out))


ALIGN_SPELLINGS = _align_spellings()


def align_flags(al):
    import re
    return sorted(x.replace("Qt.", "Qt::") for x in re.findall(r"Qt\.\w+", al))


def judge_item_kind(t, vd, cid, lay_cls, kind, al, span):
    lay = qml.Obj(lay_cls, "lay")
    lay.add(qml.Obj("QLabel", "c0"))
    c = qml.Obj(kind, "c1")
    if al is not None:
        c.add(qml.B("QLayout.alignment", al))
    if span[0] is not None:
        c.add(qml.B("QLayout.rowSpan", str(span[0])))
    if span[1] is not None:
        c.add(qml.B("QLayout.columnSpan", str(span[1])))
    lay.add(c)
    lay.add(qml.Obj("QLabel", "c2"))
    src = qml.render(qml.Obj("QWidget", "root", [lay]), oneline=True)
    case = {"id": cid, "family": "item-kinds", "source": src, "item_kind": [lay_cls, kind, al, list(span)]}
    r = vd.job({"id": cid, "source": src, "modes": ["generate"]})
    if r.get("crashed") or r.get("timeout") or "modes" not in r or r["modes"]["generate"].get("status") == "panic":
        t.lost.append({"id": cid})
        return
    g = r["modes"]["generate"]
    t.inc("documents")
    t.inc("family:item-kinds")
    t.distinct.add(src)
    if not vc.accepted(g, r.get("has_syntax_error")):
        t.violation("rejected-a-valid-layout", dict(case, diagnostics=g.get("diagnostics")))
        return
    e = uiread.find_object(uiread.parse(g["ui"]), "c1")
    it = e.parent if e is not None else None
    if it is None or it.tag != "item":
        t.violation("item-count", dict(case, problem="child c1 is not inside an <item>"))
        return
    t.inc("cells_checked")
    want = align_flags(al) if al is not None else None
    got = it.attrs.get("alignment")
    if (sorted(got.split("|")) if got is not None else None) != want:
        t.violation("alignment-not-copied" if want is not None else "alignment-invented",
                    dict(case, expected=want, got=got))
    for attr, v in (("rowspan", span[0]), ("colspan", span[1])):
        if it.attrs.get(attr) != (str(v) if v is not None else None):
            t.violation(f"span-not-copied:{attr}", dict(case, expected=v, got=it.attrs.get(attr)))


def box_jobs(tier):
    maxlen = 5 if tier == "thorough" else 4
    for cls, attr in (("QVBoxLayout", "rowStretch"), ("QHBoxLayout", "columnStretch")):
        for n in range(1, maxlen + 1):
            for seq in itertools.product([None, 0, 2, 3], repeat=n):
                yield (cls, attr, seq)


def judge_box(t, vd, cid, cls, attr, seq):
    lay = qml.Obj(cls, "lay")
    for i, v in enumerate(seq):
        lay.add(child(i, extra=[(attr, v)] if v is not None else []))
    src = qml.render(qml.Obj("QWidget", "root", [lay]), oneline=True)
    case = {"id": cid, "family": "box", "source": src, "box": [cls, attr, list(seq)]}
    r = vd.job({"id": cid, "source": src, "modes": ["generate"]})
    if r.get("crashed") or r.get("timeout") or "modes" not in r or \
            r["modes"]["generate"].get("status") == "panic":
        t.lost.append({"id": cid})
        return
    g = r["modes"]["generate"]
    t.inc("documents")
    t.inc("family:box")
    t.distinct.add(src)
    if not vc.accepted(g, r.get("has_syntax_error")):
        t.violation("rejected-a-valid-layout", dict(case, diagnostics=g.get("diagnostics")))
        return
    e = uiread.find_object(uiread.parse(g["ui"]), "lay")
    explicit = {i: v for i, v in enumerate(seq) if v is not None}
    got = parse_array(e.attrs.get("stretch"))
    if not arrays_agree(got, explicit, 1):
        t.violation("box-stretch-not-at-child-position", dict(case, expected_explicit=explicit, got=got))
    names = [it.children[0].attrs.get("name") for it in e.findall("item")]
    if names != [f"c{i}" for i in range(len(seq))]:
        t.violation("item-order", dict(case, got=names))
    for it in e.findall("item"):
        if "row" in it.attrs or "column" in it.attrs:
            t.violation("box-item-has-cell", case)
            break


def all_grid_jobs(tier):
    yield from grid_position_jobs(tier)
    yield from settings_jobs(tier)
    yield from span_jobs()


def documents(tier, for_c14=False):
    for k, (family, layout_cls, flow, count, spec) in enumerate(all_grid_jobs("quick")):
        if k % (23 if for_c14 else 1):
            continue
        kids = [child(i, r, c, list(s.items())) for i, (r, c, s, *_x) in enumerate(spec)]
        yield (f"{family}/{k}", qml.render(grid_doc(layout_cls, flow, count, kids), oneline=True))


def shard_work(shard, nshards, payload):
    tier = payload["tier"]
    vd = vc.worker_vdrive()
    t = vc.Tally()
    for k, (family, layout_cls, flow, count, spec) in enumerate(all_grid_jobs(tier)):
        if k % nshards != shard:
            continue
        judge_grid(t, vd, f"{family}/{k}", layout_cls, flow, count, spec, family)
        if k % 4001 == 0 and t.distinct:
            t.sample(sorted(t.distinct)[-1])
    for k, (cls, attr, seq) in enumerate(box_jobs(tier)):
        if k % nshards != shard:
            continue
        judge_box(t, vd, f"box/{k}", cls, attr, seq)
    for k, (_f, flow, main, count, other, oc) in enumerate(other_axis_jobs()):
        if k % nshards == shard:
            judge_other_axis(t, vd, f"other-axis/{k}", flow, main, count, other, oc)
    for k, (name, pos) in enumerate(form_settings_jobs()):
        if k % nshards == shard:
            judge_form_setting(t, vd, f"form-setting/{k}", name, pos)
    for k, (lay_cls, kind, al, span) in enumerate(item_kind_jobs()):
        if k % nshards != shard:
            continue
        judge_item_kind(t, vd, f"item-kind/{k}", lay_cls, kind, al, span)
    return t


def main(tier, t0):
    vc.ensure_vdrive()
    tally = vc.merge_tallies(vc.run_sharded(shard_work, {"tier": tier}))
    c = tally.counts
    cov = {
        "evaluations": c.get("documents", 0),
        "distinct_nontrivial": len(tally.distinct),
        "rule": "distinct documents; child sequences over 11 position options x flows x counts, "
                "deviation-bounded settings on 6 position patterns, span/alignment pairs, box stretch "
                "sequences; every item cell and every per-index array is compared with the reference model",
        "exhaustive": True,
        "bound_completed": {"children_per_grid": 4 if tier == "thorough" else 3,
                            "settings_deviations": 3 if tier == "thorough" else 2,
                            "box_children": 5 if tier == "thorough" else 4},
        "families": {k.split(":", 1)[1]: v for k, v in c.items() if k.startswith("family:")},
        "expected_accept": c.get("expected_accept", 0), "expected_reject": c.get("expected_reject", 0),
        "cells_checked": c.get("cells_checked", 0), "arrays_checked": c.get("arrays_checked", 0),
    }
    assumptions = [
        "flow rule conventions are those pinned by the two LayoutIndexCounter unit tests",
        "per-index arrays are compared semantically (explicit entries exact, gaps default, trailing "
        "defaults optional)",
    ]
    return vc.finish("C12", tier, LEVEL, tally, cov, assumptions, t0)


def replay(path):
    vc.ensure_vdrive()
    r = json.load(open(path))
    case = r["case"]
    vd = vc.VDrive()
    t = vc.Tally()
    if "other_axis" in case:
        judge_other_axis(t, vd, 0, *case["other_axis"])
    elif "form_setting" in case:
        judge_form_setting(t, vd, 0, *case["form_setting"])
    elif "item_kind" in case:
        lay_cls, kind, al, span = case["item_kind"]
        judge_item_kind(t, vd, 0, lay_cls, kind, al, tuple(span))
    elif "box" in case:
        cls, attr, seq = case["box"]
        judge_box(t, vd, 0, cls, attr, tuple(seq))
    else:
        s = case["spec"]
        spec = [(a, b, c, d, e, f) for (a, b, c, d, e, f) in s["children"]]
        judge_grid(t, vd, 0, s["layout"], s["flow"], s["count"], spec, case.get("family", "replay"))
    vd.close()
    if t.violations:
        print(f"VIOLATION property=C12 replay={path}")
        for sig, c in t.violations:
            print("  ", sig, json.dumps({k: c[k] for k in c if k in ('expected', 'got', 'expected_explicit', 'attribute')}))
        return 1
    print("replay: holds now")
    return 0
