"""C03  Values embedded in the .ui equal the value of their source expression.

(a) constant expressions: every unary / binary operator over a boundary-value set (ints up to
    2^63-1, floats, bools, strings), depth 1 complete and depth 2 on a reduced set, evaluated by
    a reference evaluator; enum / flag sets; string lists with every tr / notr mix;
(b) literal spellings, exhaustively per form: radix prefixes x all short digit strings, legacy
    octal, 08/09 forms, separators, fraction/exponent forms; string escapes \\c (all ASCII c),
    \\xHH (all 256), \\uHHHH (thorough: all 65536), \\u{...}, legacy octal escapes, both quotes.
Each expression is bound to a property of matching type (int / double / bool / string sink);
the value element is read back from the .ui with an XML parser.
"""
import itertools
import json
import math
import re

import consteval as ce
import literals
import qml
import uiread
import vcommon as vc

LEVEL = "exploration"
PACK = 60

INTS = [0, 1, 2, 3, -1, 7, 31, 32, 63, 64, (1 << 31) - 1, 1 << 31, 1 << 32, 1 << 53, (1 << 53) + 1,
        1 << 62, (1 << 63) - 1, -(1 << 31), -((1 << 63) - 1)]
INTS_SMALL = [0, 1, 2, -1, 3, 63, (1 << 62), (1 << 53) + 1]
FLOATS = [0.0, 0.5, 1.5, -2.0, 1e21, 1e-7, 5.0]
BOOLS = [True, False]
STRS = ["", "a", "ab", "b"]

SINKS = {"int": ("QSpinBox", "value"), "float": ("QDoubleSpinBox", "value"),
         "bool": ("QCheckBox", "checked"), "str": ("QLabel", "text")}


def expr_cases(tier):
    """Yields (expr text, expected) where expected is a consteval result."""
    vals = ([ce.lit(v) for v in INTS] + [ce.lit(v) for v in FLOATS] + [ce.lit(v) for v in BOOLS] +
            [ce.lit(v) for v in STRS])
    for v in vals:
        yield (ce.spell(v), v)
    for op in ce.UNOPS:
        for v in vals:
            yield (f"{op}{ce.spell(v)}", ce.unary(op, v))
    # depth 1: all operators over same-kind pairs (mixed kinds are C05's)
    groups = [[ce.lit(v) for v in INTS], [ce.lit(v) for v in FLOATS], [ce.lit(v) for v in BOOLS],
              [ce.lit(v) for v in STRS]]
    for g in groups:
        for op in ce.BINOPS:
            for a, b in itertools.product(g, repeat=2):
                yield (f"{ce.spell(a)} {op} {ce.spell(b)}", ce.binary(op, a, b))
    # the operator C++ does not have: rejected, or embedded with its ECMAScript value
    for a, b in itertools.product(groups[0], repeat=2):
        yield (f"{ce.spell(a)} >>> {ce.spell(b)}", ce.binary(">>>", a, b))
        yield (f"(-{ce.spell(a)}) >>> {ce.spell(b)}", ce.binary(">>>", ce.unary("-", a), b))
    # depth 2 on a reduced set
    small = [ce.lit(v) for v in (INTS_SMALL if tier == "thorough" else INTS_SMALL[:5])]
    ops2 = ce.BINOPS if tier == "thorough" else ["+", "-", "*", "/", "%", "<<", ">>", "&", "<"]
    for op1 in ops2:
        for op2 in ops2:
            for a, b, c in itertools.product(small, repeat=3):
                inner = ce.binary(op1, a, b)
                yield (f"({ce.spell(a)} {op1} {ce.spell(b)}) {op2} {ce.spell(c)}", ce.binary(op2, inner, c))
                inner = ce.binary(op2, b, c)
                yield (f"{ce.spell(a)} {op1} ({ce.spell(b)} {op2} {ce.spell(c)})", ce.binary(op1, a, inner))
    fs = [ce.lit(v) for v in (0.5, -2.0, 1e21)]
    for op1, op2 in itertools.product(["+", "-", "*", "/"], repeat=2):
        for a, b, c in itertools.product(fs, repeat=3):
            yield (f"({ce.spell(a)} {op1} {ce.spell(b)}) {op2} {ce.spell(c)}",
                   ce.binary(op2, ce.binary(op1, a, b), c))


def number_literals(tier):
    """Yields literal spellings (valid or not); the oracle decides."""
    out = []
    for pre, digs in (("0b", "01"), ("0B", "01"), ("0o", "01234567"), ("0O", "07"),
                      ("0x", "0123456789abcdefABCDEF"), ("0X", "09aF")):
        maxlen = 3 if len(digs) <= 8 or tier == "thorough" else 2
        for n in range(1, maxlen + 1):
            for t in itertools.product(digs, repeat=n):
                out.append(pre + "".join(t))
    for n in range(1, 4):
        for t in itertools.product("0123456789", repeat=n):
            out.append("0" + "".join(t))       # legacy octal and 08/09 forms
    for n in range(1, 4):
        for t in itertools.product("0159", repeat=n):
            out.append("".join(t))
    # separators in every position
    for base in ("1000", "0x1f00", "0b1010", "0o1777", "123456789"):
        pre = 2 if base[1] in "xbo" else 0
        for i in range(pre, len(base) + 1):
            out.append(base[:i] + "_" + base[i:])
        out.append(base[:pre + 1] + "__" + base[pre + 1:])
    # fraction / exponent forms
    for i, f, e in itertools.product(["0", "5", "12", ""], ["", ".", ".0", ".5", ".25"],
                                     ["", "e0", "e1", "E1", "e+2", "e-2", "E-1", "e10", "e"]):
        s = i + f + e
        if s and s not in (".", "e") and not s.startswith("e") and not s.startswith("E"):
            out.append(s)
    out += ["9223372036854775807", "9223372036854775808", "18446744073709551615",
            "18446744073709551616", "0x7fffffffffffffff", "0xffffffffffffffff",
            "9007199254740993", "1e21", "1e308", "1e309", "5e-324", "0.1", "0.30000000000000004"]
    seen = set()
    for s in out:
        if s not in seen:
            seen.add(s)
            yield s


def string_literals(tier):
    """Yields (quoted literal text, body)."""
    bodies = []
    for c in range(128):
        ch = chr(c)
        if ch in "\n\r":
            continue
        bodies.append("\\" + ch)
        bodies.append("\\" + ch + "z")
    for v in range(256):
        bodies.append("\\x%02x" % v)
        if v % 16 == 10:
            bodies.append("\\x%02X" % v)
    bodies += ["\\x", "\\x1", "\\x1g", "\\xg1", "\\u", "\\u1", "\\u12", "\\u123", "\\u123g",
               "\\u{}", "\\u{0}", "\\u{41}", "\\u{1F600}", "\\u{10FFFF}", "\\u{110000}",
               "\\u{00000041}", "\\u{d800}", "\\ud83d\\ude00", "\\ud83d", "\\ude00x", "\\u{g}"]
    step = 1 if tier == "thorough" else 257
    for v in range(0, 0x10000, step):
        bodies.append("\\u%04x" % v)
    for v in (0x41, 0xff, 0x100, 0x7ff, 0x800, 0xd7ff, 0xd800, 0xdfff, 0xe000, 0xfffd, 0xfffe, 0xffff,
              0x2028, 0x85, 0xa0, 0xABCD):
        bodies.append("\\u%04X" % v)
    for n in range(1, 4):
        for t in itertools.product("01234567", repeat=n):
            bodies.append("\\" + "".join(t))
    bodies += ["\\08", "\\09", "\\18", "\\400", "\\377", "\\0a", "a\\\nb", "plain", "it's", 'say "x"',
               "é", "\U0001F600"]
    seen = set()
    for b in bodies:
        for q in ('"', "'"):
            if q in b.replace("\\" + q, ""):
                continue
            lit = q + b + q
            if lit not in seen:
                seen.add(lit)
                yield (lit, b)


FLAGVAL = {"AlignLeft": 0x1, "AlignRight": 0x2, "AlignHCenter": 0x4, "AlignJustify": 0x8,
           "AlignTop": 0x20, "AlignBottom": 0x40, "AlignVCenter": 0x80, "AlignCenter": 0x84,
           "AlignHorizontal_Mask": 0x1f, "AlignVertical_Mask": 0x1e0}


def flag_cases():
    names = ["AlignLeft", "AlignRight", "AlignTop", "AlignVCenter", "AlignCenter"]
    for n in range(1, 4):
        for t in itertools.permutations(names, n):
            yield (" | ".join("Qt." + x for x in t), functools_or(t))
    # operators that must not be flattened like '|'
    for op in ("^", "&"):
        for a, b in itertools.product(["Qt.AlignLeft", "(Qt.AlignLeft | Qt.AlignTop)", "Qt.AlignCenter",
                                       "Qt.AlignHorizontal_Mask"], ["Qt.AlignLeft", "Qt.AlignTop", "Qt.AlignVCenter"]):
            va, vb = _flagexpr(a), _flagexpr(b)
            yield (f"{a} {op} {b}", va ^ vb if op == "^" else va & vb)
    yield ("~Qt.AlignLeft", None)
    yield ("Qt.AlignLeft | Qt.AlignLeft", 1)


def functools_or(t):
    v = 0
    for x in t:
        v |= FLAGVAL[x]
    return v


def _flagexpr(s):
    v = 0
    for m in re.finditer(r"Qt\.(\w+)", s):
        v |= FLAGVAL[m.group(1)]
    return v


# --------------------------------------------------------------------------- documents

def pack_doc(items):
    """items: [(class, prop, expr)] -> (root Obj, [binding nodes])"""
    root = qml.Obj("QWidget", "root")
    bs = []
    for k, (cls, prop, expr) in enumerate(items):
        b = qml.B(prop, expr)
        root.add(qml.Obj(cls, f"n{k}", [b]))
        bs.append(b)
    return root, bs


def documents(tier, for_c14=False):
    items = []
    for k, (expr, exp) in enumerate(expr_cases("quick")):
        if k % 29:
            continue
        kind = exp[0] if exp[0] in SINKS else "int"
        cls, prop = SINKS[kind]
        items.append((cls, prop, expr))
        if len(items) == 20:
            root, _ = pack_doc(items)
            yield (f"expr/{k}", qml.render(root))
            items = []


def read_value(e, cls, prop):
    p = uiread.prop(e, prop)
    if p is None:
        return None
    v = p.children[0]
    return (v.tag, v.text, dict(v.attrs))


def num_matches(text, exp):
    """exp = ('int', v) | ('float', v). Exact comparison of the decimal text."""
    if exp[0] == "int":
        return re.fullmatch(r"-?\d+", text) is not None and int(text) == exp[1]
    try:
        return float(text) == exp[1] and not math.isinf(float(text))
    except ValueError:
        return False


def classify_int(exp_v, text):
    if abs(exp_v) > (1 << 53):
        try:
            if float(text) == float(exp_v):
                return "value:integer-beyond-2^53-rounded-through-f64"
        except ValueError:
            pass
    return "value:integer"


def run_batch(t, vd, items, family):
    """items: [(sink kind, expr, expected, meta)]"""
    root, bs = pack_doc([(SINKS[k][0], SINKS[k][1], e) for (k, e, _x, _m) in items])
    src = qml.render(root)
    r = vd.job({"id": family, "source": src, "modes": ["omit"]})
    if r.get("crashed") or r.get("timeout") or "modes" not in r or r["modes"]["omit"].get("status") == "panic":
        if len(items) > 1:
            for it in items:
                run_batch(t, vd, [it], family)
        else:
            t.lost.append({"expr": items[0][1]})
        return
    if r.get("has_syntax_error") or r["modes"]["omit"].get("status") != "built":
        if len(items) > 1:
            for it in items:
                run_batch(t, vd, [it], family)
            return
        # a single expression that does not even parse: rejected
        k, expr, exp, meta = items[0]
        judge_one(t, family, k, expr, exp, meta, None, True, src)
        return
    g = r["modes"]["omit"]
    try:
        ui = uiread.parse(g["ui"])
    except uiread.UiParseError as e:
        if len(items) > 1:
            for it in items:
                run_batch(t, vd, [it], family)
            return
        k, expr, exp, meta = items[0]
        if exp and exp[0] == "str" and not literals.xml_can_carry(exp[1]):
            t.inc("expressions")
            t.inc("not-judged:xml-cannot-carry")
        else:
            t.violation("ui-not-parsable", {"expr": expr, "error": str(e), "source": src})
        return
    errs = [d for d in g["diagnostics"] if d["kind"] == "error"]
    for n, ((k, expr, exp, meta), b) in enumerate(zip(items, bs)):
        rejected = any(qml.within((d["s"], d["e"]), b.span) for d in errs)
        e = uiread.find_object(ui, f"n{n}")
        val = read_value(e, *SINKS[k]) if e is not None else None
        judge_one(t, family, k, expr, exp, meta, val, rejected,
                  f"import qmluic.QtWidgets\n{SINKS[k][0]} {{ {SINKS[k][1]}: {expr} }}\n")


def judge_one(t, family, kind, expr, exp, meta, val, rejected, src):
    t.inc("expressions")
    t.inc("family:" + family)
    case = {"family": family, "expr": expr, "sink": kind, "expected": list(exp) if exp else None,
            "observed": val, "rejected": rejected, "source": src}
    embedded = val is not None
    if embedded and rejected:
        t.violation("embedded-and-diagnosed", case)
        return
    t.distinct.add((family, expr))
    tag = exp[0] if exp else "invalid"
    if tag in ("TYPE", "UNSPEC", "invalid"):
        t.inc("not-judged:" + tag)
        return
    if tag == "UNDEF":
        t.inc("expected-reject")
        if embedded:
            feat = "undefined"
            if "<<" in expr:
                feat = "shl-overflow"
            elif "/" in expr or "%" in expr:
                feat = "division"
            t.violation(f"must-reject:{feat}", case)
        return
    if tag == "nonfinite":
        t.inc("expected-reject")
        if embedded:
            t.violation("must-reject:non-finite-float-embedded", case)
        return
    t.inc("expected-value")
    if not embedded:
        if rejected:
            t.inc("rejected-although-defined")     # not a C03 matter (C05 owns acceptance)
        else:
            t.inc("not-embedded-dynamic")
        return
    vtag, text, attrs = val
    if tag == "int":
        if vtag != "number" or not num_matches(text, exp):
            t.violation(classify_int(exp[1], text) if vtag == "number" else "value:wrong-element", case)
    elif tag == "float":
        if vtag not in ("number", "double") or not num_matches(text, exp):
            t.violation("value:float", case)
    elif tag == "bool":
        if vtag != "bool" or text != ("true" if exp[1] else "false"):
            t.violation("value:bool", case)
    elif tag == "str":
        if not literals.xml_can_carry(exp[1]):
            t.inc("not-judged:xml-cannot-carry")
            return
        want_notr = meta.get("notr", True) if meta else True
        if vtag != "string" or text != exp[1]:
            cls = "escape" if family.startswith("string") else "concat"
            t.violation(f"value:string:{cls}", case)
        elif (attrs.get("notr") == "true") != want_notr:
            t.violation("value:string:translatable-marking", case)


def jobs(tier):
    """Yields (family, [(sink kind, expr, expected, meta)]) batches."""
    def batched(family, it):
        buf = []
        for x in it:
            buf.append(x)
            if len(buf) == PACK:
                yield (family, buf)
                buf = []
        if buf:
            yield (family, buf)

    def exprs():
        for expr, exp in expr_cases(tier):
            kind = exp[0] if exp[0] in SINKS else None
            if kind is None:
                # undefined / ill-typed: bind to the sink of its operand kind
                kind = "float" if re.search(r"\d\.\d|e[+-]?\d", expr) else \
                    ("str" if '"' in expr else ("bool" if re.search(r"true|false", expr) and not re.search(r"\d", expr) else "int"))
            yield (kind, expr, exp, None)
    yield from batched("operators", exprs())

    def nums():
        for s in number_literals(tier):
            v = literals.js_number(s)
            if v is None:
                yield ("int", s, None, None)
            else:
                yield (v[0], s, v if v[0] == "int" else (("float", v[1]) if not math.isinf(v[1]) else ("nonfinite",)), None)
                # integer-vs-float typing: the other sink must not embed it
                other = "float" if v[0] == "int" else "int"
                yield (other, s, ("TYPEX",), None)
    yield from batched("number-literals", nums())

    def strs():
        for lit, body in string_literals(tier):
            v = literals.js_string_body(body)
            if v is not None and not literals.xml_can_carry(v):
                continue      # C0 controls etc.: XML 1.0 cannot carry them (excluded by C09's statement)
            yield ("str", lit, ("str", v) if v is not None else None, {"notr": True})
        for lit, body in itertools.islice(string_literals("quick"), 0, 400, 7):
            v = literals.js_string_body(body)
            yield ("str", f"qsTr({lit})", ("str", v) if v is not None else None, {"notr": False})
    yield from batched("string-literals", strs())


def judge_typex(t, items):
    pass


def shard_work(shard, nshards, payload):
    tier = payload["tier"]
    vd = vc.worker_vdrive()
    t = vc.Tally()
    for k, (family, batch) in enumerate(jobs(tier)):
        if k % nshards != shard:
            continue
        # the "wrong sink" probes of number literals: embedded => typing violation
        normal = [x for x in batch if x[2] != ("TYPEX",)]
        typex = [x for x in batch if x[2] == ("TYPEX",)]
        if normal:
            run_batch(t, vd, normal, family)
        if typex:
            run_typex(t, vd, typex)
        if k % 50 == 0 and normal:
            t.sample({"family": family, "expr": normal[0][1], "expected": list(normal[0][2]) if normal[0][2] else None})
    if shard == 0:
        run_flags(t, vd)
        run_stringlists(t, vd)
        run_objrefs(t, vd)
    return t


def run_typex(t, vd, items):
    root, bs = pack_doc([(SINKS[k][0], SINKS[k][1], e) for (k, e, _x, _m) in items])
    src = qml.render(root)
    r = vd.job({"id": "typex", "source": src, "modes": ["omit"]})
    if r.get("crashed") or r.get("timeout") or "modes" not in r or r["modes"]["omit"].get("status") != "built" \
            or r.get("has_syntax_error"):
        if len(items) > 1:
            for it in items:
                run_typex(t, vd, [it])
        return
    ui = uiread.parse(r["modes"]["omit"]["ui"])
    for n, (k, expr, _x, _m) in enumerate(items):
        e = uiread.find_object(ui, f"n{n}")
        t.inc("typing-probes")
        if e is not None and read_value(e, *SINKS[k]) is not None:
            t.violation("typing:literal-embedded-in-the-other-numeric-kind",
                        {"expr": expr, "sink": k,
                         "source": f"import qmluic.QtWidgets\n{SINKS[k][0]} {{ {SINKS[k][1]}: {expr} }}\n"})


def run_flags(t, vd):
    for expr, want in flag_cases():
        src = f"import qmluic.QtWidgets\nQLabel {{ alignment: {expr} }}\n"
        r = vd.job({"id": "flags", "source": src, "modes": ["generate"]})
        g = r["modes"]["generate"]
        t.inc("expressions")
        t.inc("family:flags")
        t.distinct.add(("flags", expr))
        if g.get("status") != "built":
            continue
        p = uiread.prop(uiread.parse(g["ui"]).find("widget"), "alignment")
        if p is None:
            t.inc("not-embedded-dynamic")
            continue
        v = p.children[0]
        toks = v.text.split("|")
        bad = [x for x in toks if not x.startswith("Qt::") or x[4:] not in FLAGVAL]
        got = functools_or([x[4:] for x in toks if x[4:] in FLAGVAL])
        if v.tag != "set" or bad or want is None or got != want:
            t.violation("value:flag-set", {"expr": expr, "expected_value": want, "observed": v.text, "source": src})
    for expr, want in [("Qt.RichText", "Qt::RichText"), ("Qt.PlainText", "Qt::PlainText")]:
        src = f"import qmluic.QtWidgets\nQLabel {{ textFormat: {expr} }}\n"
        g = vd.job({"id": "enum", "source": src, "modes": ["generate"]})["modes"]["generate"]
        t.inc("expressions")
        v = uiread.prop(uiread.parse(g["ui"]).find("widget"), "textFormat").children[0]
        if v.tag != "enum" or v.text != want:
            t.violation("value:enum", {"expr": expr, "observed": v.text, "source": src})
    for expr, want, prop in [("VObj.M1", "VObj::M1", "e"), ("VObj.M0", "VObj::M0", "e"), ("VObj.N1", "VObj::N1", "e2"),
                             ("VObj.Scoped.S1", "VObj::Scoped::S1", "sc"), ("VObj.Scoped.S0", "VObj::Scoped::S0", "sc"),
                             ("VSub.Scoped.S1", "VObj::Scoped::S1", "sc"), ("VSub.M1", "VObj::M1", "e")]:
        src = f"import qmluic.QtWidgets\nVObj {{ {prop}: {expr} }}\n"
        g = vd.job({"id": "enum", "source": src, "modes": ["generate"]})["modes"]["generate"]
        t.inc("expressions")
        if not vc.accepted(g, False):
            # spelling an enumerator through a derived class is not promised by the documentation: only counted
            if expr.startswith("VSub."):
                t.inc("enum-through-derived-class-rejected")
                continue
            t.violation("value:enum-rejected", {"expr": expr, "source": src, "diagnostics": g.get("diagnostics")})
            continue
        v = uiread.prop(uiread.parse(g["ui"]).find("widget"), prop).children[0]
        if v.tag != "enum" or v.text != want:
            t.violation("value:enum", {"expr": expr, "observed": v.text, "source": src})


def run_stringlists(t, vd):
    for n in range(0, 4):
        for mix in itertools.product([False, True], repeat=n):
            items = [("qsTr(\"s%d\")" % i) if tr else ("\"s%d\"" % i) for i, tr in enumerate(mix)]
            src = "import qmluic.QtWidgets\nVObj { sl: [" + ", ".join(items) + "] }\n"
            g = vd.job({"id": "sl", "source": src, "modes": ["generate"]})["modes"]["generate"]
            t.inc("expressions")
            t.inc("family:stringlists")
            t.distinct.add(("sl", mix))
            mixed = len(set(mix)) > 1
            acc = vc.accepted(g)
            case = {"mix": list(mix), "source": src}
            if mixed:
                if acc:
                    t.violation("stringlist:mixed-tr-notr-embedded", case)
                continue
            if not acc:
                t.inc("rejected-although-defined")
                continue
            p = uiread.prop(uiread.parse(g["ui"]).find("widget"), "sl")
            if p is None:
                t.inc("not-embedded-dynamic")
                continue
            v = p.children[0]
            want_notr = not (n > 0 and mix[0])
            if v.tag != "stringlist" or [c.text for c in v.children] != [f"s{i}" for i in range(n)] or \
                    (v.attrs.get("notr") == "true") != want_notr:
                t.violation("stringlist:value-or-marking", dict(case, observed=[v.attrs, [c.text for c in v.children]]))


def run_objrefs(t, vd):
    src = ("import qmluic.QtWidgets\nQWidget { QLabel { id: l1; buddy: e2 } QLineEdit { id: e1 } "
           "QLineEdit { id: e2 } QLabel { id: l2; buddy: e1 } }\n")
    g = vd.job({"id": "ref", "source": src, "modes": ["generate"]})["modes"]["generate"]
    t.inc("expressions", 2)
    ui = uiread.parse(g["ui"])
    for lab, want in (("l1", "e2"), ("l2", "e1")):
        v = uiread.prop(uiread.find_object(ui, lab), "buddy").children[0]
        if v.tag != "cstring" or v.text != want:
            t.violation("value:object-reference", {"label": lab, "observed": v.text, "source": src})


# --------------------------------------------------------------------------- every place a constant can land

def _loc_prop(name, tag="property"):
    def f(root, obj):
        e = uiread.find_object(root, obj)
        p_ = uiread.prop(e, name, tag) if e is not None else None
        return p_.children[0].text if p_ is not None and p_.children else None
    return f


def _loc_member(prop, member, attr=False):
    def f(root, obj):
        e = uiread.find_object(root, obj)
        p_ = uiread.prop(e, prop) if e is not None else None
        if p_ is None or not p_.children:
            return None
        g = p_.children[0]
        if attr:
            return g.attrs.get(member)
        m = g.find(member)
        return m.text if m is not None else None
    return f


def _loc_item_attr(attr):
    def f(root, obj):
        e = uiread.find_object(root, obj)
        it = e.parent if e is not None else None
        return it.attrs.get(attr) if it is not None and it.tag == "item" else None
    return f


def _loc_layout_array(attr, index):
    def f(root, obj):
        e = uiread.find_object(root, "lay")
        v = e.attrs.get(attr) if e is not None else None
        if v is None:
            return None
        parts = v.split(",")
        return parts[index] if index < len(parts) else None
    return f


def _loc_first_item(root, obj):
    e = uiread.find_object(root, obj)
    it = e.find("item") if e is not None else None
    p_ = uiread.prop(it, "text") if it is not None else None
    return p_.children[0].text if p_ is not None and p_.children else None


def _doc(body):
    return "import qmluic.QtWidgets\nQWidget {{\n    id: root\n" + body + "}}\n"


# (kind, name, document template with {e}, locator)
SINK_POSITIONS = [
    ("int", "property", _doc("    QSpinBox {{ id: t; maximum: {e} }}\n"), _loc_prop("maximum")),
    ("int", "gadget-member:font.pointSize", _doc("    QLabel {{ id: t; font.pointSize: {e} }}\n"), _loc_member("font", "pointsize")),
    ("int", "gadget-member:geometry.x", _doc("    QLabel {{ id: t; geometry {{ x: {e}; y: 1; width: 2; height: 3 }} }}\n"), _loc_member("geometry", "x")),
    ("int", "gadget-member:minimumSize.height", _doc("    QLabel {{ id: t; minimumSize {{ width: 1; height: {e} }} }}\n"), _loc_member("minimumSize", "height")),
    ("int", "gadget-member:sizePolicy.verticalStretch",
     _doc("    QLabel {{ id: t; sizePolicy {{ horizontalPolicy: QSizePolicy.Fixed; verticalPolicy: QSizePolicy.Fixed; verticalStretch: {e} }} }}\n"),
     _loc_member("sizePolicy", "verstretch")),
    ("int", "layout-property:spacing", _doc("    QWidget {{ QVBoxLayout {{ id: t; spacing: {e} }} }}\n"), _loc_prop("spacing")),
    ("int", "layout-margins:top", _doc("    QWidget {{ QVBoxLayout {{ id: t; contentsMargins {{ left: 0; top: {e}; right: 0; bottom: 0 }} }} }}\n"), _loc_prop("topMargin")),
    ("int", "spacer:sizeHint.width", _doc("    QWidget {{ QVBoxLayout {{ QSpacerItem {{ id: t; sizeHint {{ width: {e}; height: 1 }} }} }} }}\n"), _loc_member("sizeHint", "width")),
    ("int", "header-map:defaultSectionSize", _doc("    QTableView {{ id: t; horizontalHeader.defaultSectionSize: {e} }}\n"),
     _loc_prop("horizontalHeaderDefaultSectionSize", "attribute")),
    ("int", "attached:rowStretch", _doc("    QWidget {{ QGridLayout {{ id: lay; QLabel {{ id: t; QLayout.rowStretch: {e} }} }} }}\n"), _loc_layout_array("rowstretch", 0)),
    ("int", "attached:columnMinimumWidth", _doc("    QWidget {{ QGridLayout {{ id: lay; QLabel {{ id: t; QLayout.columnMinimumWidth: {e} }} }} }}\n"),
     _loc_layout_array("columnminimumwidth", 0)),
    ("int", "attached:rowSpan", _doc("    QWidget {{ QGridLayout {{ id: lay; QLabel {{ id: t; QLayout.rowSpan: {e} }} }} }}\n"), _loc_item_attr("rowspan")),
    ("int", "action-property:priority-like", _doc("    QAction {{ id: t; autoRepeat: true }}\n    QSlider {{ id: t2; pageStep: {e} }}\n"),
     lambda root, obj: _loc_prop("pageStep")(root, "t2")),
    ("bool", "property", _doc("    QCheckBox {{ id: t; checked: {e} }}\n"), _loc_prop("checked")),
    ("bool", "gadget-member:font.bold", _doc("    QLabel {{ id: t; font.bold: {e} }}\n"), _loc_member("font", "bold")),
    ("bool", "header-map:visible", _doc("    QTreeView {{ id: t; header.visible: {e} }}\n"), _loc_prop("headerVisible", "attribute")),
    ("bool", "action-property", _doc("    QAction {{ id: t; checkable: {e} }}\n"), _loc_prop("checkable")),
    ("str", "property", _doc("    QLabel {{ id: t; toolTip: {e} }}\n"), _loc_prop("toolTip")),
    ("str", "gadget-member:font.family", _doc("    QLabel {{ id: t; font.family: {e} }}\n"), _loc_member("font", "family")),
    ("str", "attached:tab-title", _doc("    QTabWidget {{ QWidget {{ id: t; QTabWidget.title: {e} }} }}\n"), _loc_prop("title", "attribute")),
    ("str", "icon-theme", _doc("    QLabel {{ id: t; windowIcon.name: {e} }}\n"), _loc_member("windowIcon", "theme", attr=True)),
    ("str", "model-item", _doc("    QComboBox {{ id: t; model: [{e}] }}\n"), _loc_first_item),
    ("str", "action-text", _doc("    QAction {{ id: t; text: {e} }}\n"), _loc_prop("text")),
    ("float", "property", _doc("    QDoubleSpinBox {{ id: t; maximum: {e} }}\n"), _loc_prop("maximum")),
    ("float", "property:singleStep", _doc("    QDoubleSpinBox {{ id: t; singleStep: {e} }}\n"), _loc_prop("singleStep")),
]
SINK_EXPRS = {
    "int": ["0", "1", "-1", "7", "1 + 2", "7 / 2", "-7 / 2", "-7 % 3", "7 % -3", "1 << 4", "-16 >> 2", "6 & 3", "6 | 3", "6 ^ 3", "~5",
            "2147483647", "-2147483648", "2147483648", "4294967297", "-4294967295", "65536", "0x10", "0b101", "017", "1_000",
            "3 * (2 - 5)", "(7 - 7) * 9", "- -3"],
    "bool": ["true", "false", "!true", "1 < 2", "2 <= 1", "3 >= 3", "3 > 3", "\"a\" == \"a\"", "true && false", "true || false", "1.5 >= 1.5"],
    "str": ['"a"', '""', '"a" + "b"', '"x\\ty"', '"q\\"q"', '"\\u00e9"', '"%1".arg("z")', '"%1-%2".arg("a").arg("b")', '"n=%1".arg(3)', "'s'"],
    "float": ["0.5", "1.5 + 2.0", "5.0 / 2.0", "-1.5", "1e2", ".5", "2.5e-1", "1.5 * 2.0", "3.0 - 4.5"],
}
SINK_EXPECT = {
    # str family: spelled here because consteval covers operators only
    '"a"': "a", '""': "", '"a" + "b"': "ab", '"x\\ty"': "x\ty", '"q\\"q"': 'q"q', '"\\u00e9"': "\u00e9", '"%1".arg("z")': "z",
    '"%1-%2".arg("a").arg("b")': "a-b", '"n=%1".arg(3)': "n=3", "'s'": "s",
    "true": True, "false": False, "!true": False, "1 < 2": True, "2 <= 1": False, "3 >= 3": True, "3 > 3": False,
    '"a" == "a"': True, "true && false": False, "true || false": True, "1.5 >= 1.5": True,
    "0.5": 0.5, "1.5 + 2.0": 3.5, "5.0 / 2.0": 2.5, "-1.5": -1.5, "1e2": 100.0, ".5": 0.5, "2.5e-1": 0.25, "1.5 * 2.0": 3.0, "3.0 - 4.5": -1.5,
    "0": 0, "1": 1, "-1": -1, "7": 7, "1 + 2": 3, "7 / 2": 3, "-7 / 2": -3, "-7 % 3": -1, "7 % -3": 1, "1 << 4": 16, "-16 >> 2": -4,
    "6 & 3": 2, "6 | 3": 7, "6 ^ 3": 5, "~5": -6, "2147483647": 2147483647, "-2147483648": -2147483648, "2147483648": 2147483648,
    "4294967297": 4294967297, "-4294967295": -4294967295, "65536": 65536, "0x10": 16, "0b101": 5, "017": 15, "1_000": 1000,
    "3 * (2 - 5)": -9, "(7 - 7) * 9": 0, "- -3": 3,
}


def sink_work(shard, nshards, payload):
    """The same constants in every position a constant can land (properties, gadget members, layout
    margins, spacer hints, header-map attributes, attached settings, tab attributes, icon themes, model
    items, actions): whatever is embedded must be the denoted value.  A position may refuse a value
    (out of its range): that is not judged here; a different value is."""
    vd = vc.worker_vdrive()
    t = vc.Tally()
    k = 0
    for kind, name, tmpl, loc in SINK_POSITIONS:
        for e in SINK_EXPRS[kind]:
            k += 1
            if k % nshards != shard:
                continue
            src = tmpl.format(e=e)
            r = vd.job({"id": k, "source": src, "modes": ["generate"]})
            if "modes" not in r or r["modes"]["generate"].get("status") == "panic":
                t.lost.append({"id": f"sink/{name}/{e}"})
                continue
            g = r["modes"]["generate"]
            t.inc("sink_documents")
            t.inc("family:sink-positions")
            if r.get("has_syntax_error"):
                raise vc.MachineryError("sink document does not parse:\n" + src)
            if not vc.accepted(g):
                t.inc("sink_refused")
                continue
            try:
                got = loc(uiread.parse(g["ui"]), "t")
            except uiread.UiParseError as ex:
                t.violation(f"sink:ui-not-parsable:{name}", {"id": f"sink/{name}/{e}", "source": src, "error": str(ex)})
                continue
            want = SINK_EXPECT[e]
            t.inc("expressions")
            t.distinct.add(("sink", name, e))
            case = {"id": f"sink/{name}/{e}", "source": src, "expected": want, "embedded": got}
            if got is None:
                t.inc("sink_not_embedded")      # left to run time (not folded): C03 judges what is embedded, C04 that it lands somewhere
            elif kind == "int":
                if not (re.fullmatch(r"-?\d+", got) and int(got) == want):
                    t.violation(f"sink:value:{name}", case)
            elif kind == "bool":
                if got != ("true" if want else "false"):
                    t.violation(f"sink:value:{name}", case)
            elif kind == "float":
                try:
                    ok = float(got) == want
                except ValueError:
                    ok = False
                if not ok:
                    t.violation(f"sink:value:{name}", case)
            elif got != want:
                t.violation(f"sink:value:{name}", case)
    return t


def main(tier, t0):
    vc.ensure_vdrive()
    tally = vc.merge_tallies(vc.run_sharded(shard_work, {"tier": tier}))
    tally.merge(vc.merge_tallies(vc.run_sharded(sink_work, {"tier": tier})))
    c = tally.counts
    cov = {
        "evaluations": c.get("expressions", 0) + c.get("typing-probes", 0),
        "distinct_nontrivial": len(tally.distinct),
        "rule": "distinct (family, expression text) pairs; operators over boundary values depth 1 complete + "
                "depth 2 reduced; literal spellings enumerated per form; each value read back from the .ui",
        "exhaustive": True,
        "bound_completed": {"operator_depth": 2, "uHHHH_escapes": "all 65536" if tier == "thorough" else "every 257th + boundaries",
                            "xHH_escapes": "all 256", "single_char_escapes": "all ASCII"},
        "families": {k.split(":", 1)[1]: v for k, v in c.items() if k.startswith("family:")},
        "expected_value": c.get("expected-value", 0), "expected_reject": c.get("expected-reject", 0),
        "not_judged": {k.split(":", 1)[1]: v for k, v in c.items() if k.startswith("not-judged:")},
        "rejected_although_defined": c.get("rejected-although-defined", 0),
        "not_embedded_dynamic": c.get("not-embedded-dynamic", 0),
        "typing_probes": c.get("typing-probes", 0),
        "sink_positions": {"positions": len(SINK_POSITIONS), "documents": c.get("sink_documents", 0),
                           "refused_by_the_position": c.get("sink_refused", 0), "left_to_run_time": c.get("sink_not_embedded", 0)},
    }
    assumptions = [
        "integers are 64-bit signed; value outside => undefined => must be rejected; shift counts outside "
        "0..63 undefined; '<<' whose mathematical result does not fit is overflow",
        "a rejected well-formed literal is not a C03 violation (C03 is about what is embedded)",
        "'%' on doubles, comparisons of bools/null, bitwise on bools are unspecified: not judged",
    ]
    return vc.finish("C03", tier, LEVEL, tally, cov, assumptions, t0)


def replay(path):
    vc.ensure_vdrive()
    r = json.load(open(path))
    case = r["case"]
    vd = vc.VDrive()
    g = vd.job({"id": 0, "source": case["source"], "modes": ["omit"]})["modes"]["omit"]
    vd.close()
    print("source:", case["source"].strip())
    print("expected:", case.get("expected") or case.get("expected_value"), "recorded observation:", case.get("observed"))
    print("diagnostics:", [d["msg"] for d in g.get("diagnostics", [])])
    print(g.get("ui"))
    print(f"VIOLATION property=C03 replay={path}  (re-run the check to re-judge)")
    return 1
