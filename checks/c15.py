"""C15  generate-ui writes only where it should, atomically, and only when needed.

Three parts, all on the real binary in private scratch trees:
  A  path shapes x option combinations (full product): created files, refused paths, nothing else
     in the tree changes (snapshot = path, inode, mtime_ns, mode, sha256 of every file);
  B  histories: every sequence (<= 2 quick / <= 3 thorough) of {generate, touch source, edit a
     constant, edit a binding, introduce an error, repair, delete the .ui, delete the header,
     generate with --no-dynamic-binding} against a reference model of the output directory;
  C  crash points (fault enumeration): for each scenario the un-killed run is traced once; then for
     every system call name it used and every k <= its count the real process is killed (SIGKILL
     injected by strace on entry to its k-th call of that name); afterwards every output path must
     hold exactly its old bytes, exactly its new bytes, or be absent iff it was absent before.
     The trace is also checked for the write discipline that makes torn writes impossible
     (writes only to O_EXCL temp files, output paths only as rename destinations).
"""
import itertools
import json
import os
import re
import shutil
import subprocess

import vcommon as vc

LEVEL = "fault_enumeration"


def src_text(c=0, b=0, err=False):
    title = f"T{c}"
    vis = "cb.checked" if b == 0 else "!cb.checked"
    bad = "    nosuchProperty: 1\n" if err else ""
    return ("import qmluic.QtWidgets\nQWidget {\n    windowTitle: \"" + title + "\"\n" + bad +
            "    QCheckBox { id: cb }\n    QLabel { visible: " + vis + " }\n}\n")


STATIC_SRC = "import qmluic.QtWidgets\nQWidget {\n    windowTitle: \"static\"\n    QLabel { text: \"x\" }\n}\n"


def snapshot(root):
    snap = {}
    for dp, dns, fns in os.walk(root):
        for fn in fns:
            p = os.path.join(dp, fn)
            st = os.lstat(p)
            with open(p, "rb") as f:
                h = vc.sha(f.read())
            snap[os.path.relpath(p, root)] = (st.st_ino, st.st_mtime_ns, st.st_mode, h)
        for dn in dns:
            p = os.path.join(dp, dn)
            snap[os.path.relpath(p, root) + "/"] = ("dir",)
    return snap


def run_cli(cwd, args, env_extra=None, prefix=None):
    cmd = (prefix or []) + [vc.QMLUIC_BIN, "generate-ui", "--foreign-types", vc.METATYPES] + args
    env = dict(os.environ, NO_COLOR="1")
    if env_extra:
        env.update(env_extra)
    p = subprocess.run(cmd, cwd=cwd, env=env, stdout=subprocess.PIPE, stderr=subprocess.PIPE)
    return p.returncode, p.stderr.decode("utf-8", "replace")


def reference_outputs(scratch, text, stem, nodyn=False, nolower=False):
    """Bytes a fresh generation produces for `text` (computed in a separate clean directory)."""
    d = os.path.join(scratch, "_ref")
    shutil.rmtree(d, ignore_errors=True)
    os.makedirs(d)
    with open(os.path.join(d, stem + ".qml"), "w") as f:
        f.write(text)
    args = [stem + ".qml"]
    if nodyn:
        args.insert(0, "--no-dynamic-binding")
    if nolower:
        args.insert(0, "--no-lowercase-file-name")
    rc, err = run_cli(d, args)
    out = {}
    for fn in os.listdir(d):
        if fn != stem + ".qml":
            out[fn] = open(os.path.join(d, fn), "rb").read()
    shutil.rmtree(d, ignore_errors=True)
    return rc, out


# --------------------------------------------------------------------------- part A

SHAPES = [
    # (label, source argument (relative to cwd=root/work), file location relative to root, stem)
    ("plain", "X.qml", "work/X.qml", "X"),
    ("subdir", "sub/X.qml", "work/sub/X.qml", "X"),
    ("curdir", "./X.qml", "work/X.qml", "X"),
    ("curdir-subdir", "./sub/./X.qml", "work/sub/X.qml", "X"),
    ("dotdot-inside", "sub/../X.qml", "work/X.qml", "X"),
    ("dotdot-late", "sub/../../Outer.qml", "Outer.qml", "Outer"),
    ("parent", "../Outer.qml", "Outer.qml", "Outer"),
    ("absolute", "@ABS@/work/X.qml", "work/X.qml", "X"),
    ("mixed-case", "MiXed.qml", "work/MiXed.qml", "MiXed"),
    ("upper-suffix", "x.QML", "work/x.QML", "x"),
    ("space", "My Form.qml", "work/My Form.qml", "My Form"),
    ("non-ascii", "Fenêtre.qml", "work/Fenêtre.qml", "Fenêtre"),
    ("deep", "sub/deeper/Y.qml", "work/sub/deeper/Y.qml", "Y"),
    # dots inside the name, upper-case letters in directory components (only the file name is lower-cased)
    ("extra-dot", "Settings.General.qml", "work/Settings.General.qml", "Settings.General"),
    ("two-extra-dots", "sub/a.B.c.qml", "work/sub/a.B.c.qml", "a.B.c"),
    ("upper-dir", "Forms/MainDialog.qml", "work/Forms/MainDialog.qml", "MainDialog"),
    ("upper-dir-deep", "src/Dialogs/SubDir/X.qml", "work/src/Dialogs/SubDir/X.qml", "X"),
    ("upper-dir-dotted", "My.Forms/x.y.qml", "work/My.Forms/x.y.qml", "x.y"),
]
OUTDIRS = [None, "out", "out/deep/er", "@ABS@/absout", "."]


def expected_names(stem, nodyn, nolower):
    ui = stem + ".ui"
    h = "uisupport_" + stem + ".h"
    if not nolower:
        # ASCII-only lower-casing of the file name
        ui = "".join(c.lower() if c.isascii() else c for c in ui)
        h = "".join(c.lower() if c.isascii() else c for c in h)
    return [ui] if nodyn else [ui, h]


QUICK_TIER = False


def part_a(tally, scratch):
    k = 0
    for (label, arg, loc, stem), outdir, nodyn, nolower in itertools.product(
            SHAPES, OUTDIRS, (False, True), (False, True)):
        if QUICK_TIER and label in ("two-extra-dots", "upper-dir-deep", "upper-dir-dotted") and outdir not in (None, "out"):
            continue        # quick: the later name shapes with two output-directory choices only
        k += 1
        root = os.path.join(scratch, f"a{k}")
        os.makedirs(os.path.join(root, "work", "sub", "deeper"))
        os.makedirs(os.path.join(root, "elsewhere"))
        for (_l, _a, floc, _s) in SHAPES:
            p = os.path.join(root, floc)
            os.makedirs(os.path.dirname(p), exist_ok=True)
            if not os.path.exists(p):
                with open(p, "w") as f:
                    f.write(STATIC_SRC)
        with open(os.path.join(root, "elsewhere", "keep.txt"), "w") as f:
            f.write("sentinel")
        arg_real = arg.replace("@ABS@", root)
        args = []
        if outdir is not None:
            args += ["-O", outdir.replace("@ABS@", root)]
        if nodyn:
            args.append("--no-dynamic-binding")
        if nolower:
            args.append("--no-lowercase-file-name")
        args.append(arg_real)
        before = snapshot(root)
        rc, err = run_cli(os.path.join(root, "work"), args)
        after = snapshot(root)
        tally.inc("path_runs")
        case = {"kind": "paths", "shape": label, "source_arg": arg, "output_directory": outdir,
                "no_dynamic_binding": nodyn, "no_lowercase": nolower, "exit": rc,
                "stderr_tail": err[-300:]}
        tally.distinct.add(("A", label, outdir, nodyn, nolower))
        comps = [c for c in arg_real.split("/") if c != ""]
        escaping = arg_real.startswith("/") or ".." in comps
        created = sorted(p for p in after if p not in before)
        changed = sorted(p for p in before if p in after and before[p] != after[p])
        removed = sorted(p for p in before if p not in after)
        if outdir is not None and escaping:
            tally.inc("expected_refusals")
            if rc == 0 or created or changed or removed:
                tally.violation("refusal:escaping-source-path-accepted-with-output-directory",
                                dict(case, created=created, changed=changed))
            shutil.rmtree(root, ignore_errors=True)
            continue
        if rc != 0:
            tally.violation("paths:valid-invocation-failed", case)
            shutil.rmtree(root, ignore_errors=True)
            continue
        names = expected_names(stem, nodyn, nolower)
        src_dir = os.path.dirname(loc)
        if outdir is None:
            base = src_dir
        else:
            od = outdir.replace("@ABS@", root)
            od_abs = od if od.startswith("/") else os.path.normpath(os.path.join(root, "work", od))
            rel_dir = os.path.dirname(os.path.normpath(arg_real))
            base = os.path.relpath(os.path.normpath(os.path.join(od_abs, rel_dir)), root)
        want = sorted(os.path.normpath(os.path.join(base, n)) for n in names)
        got_files = sorted(p for p in created if not p.endswith("/"))
        if got_files != want:
            what = "outside-output-directory" if outdir is not None and any(
                not os.path.normpath(os.path.join(root, g)).startswith(od_abs) for g in got_files) else "wrong-files"
            tally.violation(f"paths:{what}", dict(case, expected=want, created=got_files))
        if changed or removed:
            tally.violation("paths:existing-files-touched", dict(case, changed=changed, removed=removed))
        ref_rc, ref = reference_outputs(scratch, STATIC_SRC, stem, nodyn, nolower)
        for g in got_files:
            data = open(os.path.join(root, g), "rb").read()
            if ref.get(os.path.basename(g)) != data:
                tally.violation("paths:content-differs-from-fresh-generation", dict(case, file=g))
        shutil.rmtree(root, ignore_errors=True)
    # two sources with the same stem in different directories
    root = os.path.join(scratch, "a-two")
    for d in ("work/p", "work/q"):
        os.makedirs(os.path.join(root, d))
    with open(os.path.join(root, "work/p/X.qml"), "w") as f:
        f.write(src_text(c=1))
    with open(os.path.join(root, "work/q/X.qml"), "w") as f:
        f.write(src_text(c=2))
    for outdir in (None, "out"):
        args = (["-O", outdir] if outdir else []) + ["p/X.qml", "q/X.qml"]
        rc, err = run_cli(os.path.join(root, "work"), args)
        tally.inc("path_runs")
        base = os.path.join(root, "work", outdir or "")
        ok = rc == 0
        for d, c in (("p", 1), ("q", 2)):
            p = os.path.join(base, d, "x.ui")
            ok = ok and os.path.exists(p) and (f"T{c}" in open(p).read())
        if not ok:
            tally.violation("paths:same-stem-in-two-directories", {"kind": "paths", "output_directory": outdir, "exit": rc})
    shutil.rmtree(root, ignore_errors=True)


# --------------------------------------------------------------------------- part B

EVENTS = ["generate", "generate-nodyn", "touch", "edit-constant", "edit-binding", "break", "repair",
          "delete-ui", "delete-header"]


def part_b_history(tally, scratch, hist, outdir, ref_cache):
    root = os.path.join(scratch, "b")
    shutil.rmtree(root, ignore_errors=True)
    os.makedirs(root)
    st = {"c": 0, "b": 0, "err": False}
    srcp = os.path.join(root, "Form.qml")
    with open(srcp, "w") as f:
        f.write(src_text(**st))
    model = {}            # output file name -> bytes (what the directory must hold)
    base = os.path.join(root, outdir) if outdir else root
    case_base = {"kind": "history", "history": list(hist), "output_directory": outdir}

    def ref(nodyn):
        key = (st["c"], st["b"], nodyn)
        if key not in ref_cache:
            ref_cache[key] = reference_outputs(scratch, src_text(st["c"], st["b"], False), "Form", nodyn)[1]
        return ref_cache[key]

    for step, ev in enumerate(hist):
        case = dict(case_base, step=step, event=ev)
        if ev in ("generate", "generate-nodyn"):
            nodyn = ev == "generate-nodyn"
            before = snapshot(root)
            args = (["-O", outdir] if outdir else []) + (["--no-dynamic-binding"] if nodyn else []) + ["Form.qml"]
            rc, err = run_cli(root, args)
            after = snapshot(root)
            tally.inc("history_generates")
            diff = sorted(p for p in set(before) | set(after) if before.get(p) != after.get(p) and not p.endswith("/"))
            if st["err"]:
                if rc == 0 or diff:
                    tally.violation("history:error-run-changed-something", dict(case, exit=rc, changed=diff))
                continue
            # --no-dynamic-binding rejects documents with dynamic bindings: nothing may change
            if nodyn:
                if rc == 0 or diff:
                    tally.violation("history:rejected-run-changed-something", dict(case, exit=rc, changed=diff))
                continue
            if rc != 0:
                tally.violation("history:valid-run-failed", dict(case, exit=rc, stderr=err[-300:]))
                continue
            want = ref(False)
            rel = (outdir + "/" if outdir else "")
            exp_changed = sorted(rel + n for n, data in want.items() if model.get(n) != data)
            if diff != exp_changed:
                untouched_violation = [p for p in diff if p not in exp_changed]
                what = "unchanged-output-was-rewritten" if untouched_violation else "stale-output-left"
                tally.violation(f"history:{what}", dict(case, expected_changes=exp_changed, observed_changes=diff))
            for n, data in want.items():
                p = os.path.join(base, n)
                if not os.path.exists(p) or open(p, "rb").read() != data:
                    tally.violation("history:output-not-equal-to-fresh-generation", dict(case, file=n))
                model[n] = data
            stray = [p for p in after if p not in before and not p.endswith("/") and
                     os.path.basename(p) not in want]
            if stray:
                tally.violation("history:stray-files", dict(case, files=stray))
        elif ev == "touch":
            os.utime(srcp, None)
            with open(srcp, "a"):
                pass
        elif ev == "edit-constant":
            st["c"] = 1 - st["c"]
            with open(srcp, "w") as f:
                f.write(src_text(**st))
        elif ev == "edit-binding":
            st["b"] = 1 - st["b"]
            with open(srcp, "w") as f:
                f.write(src_text(**st))
        elif ev == "break":
            st["err"] = True
            with open(srcp, "w") as f:
                f.write(src_text(**st))
        elif ev == "repair":
            st["err"] = False
            with open(srcp, "w") as f:
                f.write(src_text(**st))
        elif ev == "delete-ui":
            p = os.path.join(base, "form.ui")
            if os.path.exists(p):
                os.remove(p)
            model.pop("form.ui", None)
        elif ev == "delete-header":
            p = os.path.join(base, "uisupport_form.h")
            if os.path.exists(p):
                os.remove(p)
            model.pop("uisupport_form.h", None)
    shutil.rmtree(root, ignore_errors=True)


def part_b(tally, scratch, tier):
    maxlen = 3 if tier == "thorough" else 2
    ref_cache = {}
    n = 0
    for outdir in (None, "out"):
        for ln in range(1, maxlen + 1):
            for mid in itertools.product(EVENTS, repeat=ln):
                # every history starts from a generated state and ends with a generate, so that each
                # sequence of edits is observed
                hist = ("generate",) + mid + ("generate",)
                part_b_history(tally, scratch, hist, outdir, ref_cache)
                tally.distinct.add(("B", outdir, hist))
                n += 1
    tally.inc("histories", n)


# --------------------------------------------------------------------------- part C

SCENARIOS = ["fresh", "unchanged", "ui-changed", "header-changed", "both-changed", "two-sources",
             "fresh-output-directory"]


def prepare_scenario(root, scen):
    """Creates the initial tree; returns (args, {output relpath: new bytes or None})."""
    os.makedirs(root)
    files = ["Form.qml"]
    outdir = None
    if scen == "two-sources":
        files = ["Form.qml", "Other.qml"]
    if scen == "fresh-output-directory":
        outdir = "out/deep"
    old = {"c": 0, "b": 0}
    new = dict(old)
    if scen in ("ui-changed", "both-changed", "two-sources"):
        new["c"] = 1
    if scen in ("header-changed", "both-changed", "two-sources"):
        new["b"] = 1
    args = (["-O", outdir] if outdir else []) + files
    if scen not in ("fresh", "fresh-output-directory"):
        for fn in files:
            with open(os.path.join(root, fn), "w") as f:
                f.write(src_text(**old))
        rc, err = run_cli(root, args)
        if rc != 0:
            raise vc.MachineryError("scenario preparation failed: " + err[-500:])
    for fn in files:
        with open(os.path.join(root, fn), "w") as f:
            f.write(src_text(**new))
    return args


def copy_tree(src, dst):
    shutil.rmtree(dst, ignore_errors=True)
    shutil.copytree(src, dst, symlinks=True)
    # keep mtimes/inodes irrelevant: kills are judged on bytes only


SYSCALL_RE = re.compile(r"^(?:\[pid\s+\d+\]\s+)?(\w+)\(")


def trace_run(template, work, args):
    copy_tree(template, work)
    log = work + ".strace"
    cmd = ["strace", "-f", "-o", log, "-s", "256", "-y"]
    rc, err = run_cli(work, args, prefix=cmd)
    if not os.path.exists(log):
        raise vc.MachineryError("strace produced no trace (ptrace unavailable?): " + err[-300:])
    lines = open(log, errors="replace").read().splitlines()
    os.remove(log)
    counts = {}
    for l in lines:
        m = SYSCALL_RE.match(re.sub(r"^\d+\s+", "", l))
        if m:
            counts[m.group(1)] = counts.get(m.group(1), 0) + 1
    return rc, lines, counts


def outputs_state(root):
    out = {}
    for dp, _dns, fns in os.walk(root):
        for fn in fns:
            if fn.endswith(".ui") or fn.endswith(".h"):
                p = os.path.join(dp, fn)
                out[os.path.relpath(p, root)] = open(p, "rb").read()
    return out


def check_write_discipline(tally, lines, root_outputs, scen):
    """Model argument bound to the trace: output paths are only ever rename destinations, and every
    write goes to an fd opened with O_EXCL on another (temporary) name."""
    fd_path = {}
    outs = set(os.path.basename(p) for p in root_outputs)
    problems = []
    for l in lines:
        body = re.sub(r"^\d+\s+", "", l)
        m = re.match(r'openat\(AT_FDCWD[^,]*, "([^"]*)", ([A-Z_|0-9]+)(?:, [0-7]+)?\)\s+=\s+(\d+)', body)
        if m:
            path, flags, fd = m.group(1), m.group(2), int(m.group(3))
            fd_path[fd] = (path, flags)
            if os.path.basename(path) in outs and re.search(r"O_WRONLY|O_RDWR|O_TRUNC|O_CREAT|O_APPEND", flags):
                problems.append(f"output path opened for writing: {body[:160]}")
            continue
        m = re.match(r"close\((\d+)", body)
        if m:
            fd_path.pop(int(m.group(1)), None)
            continue
        m = re.match(r"(?:write|pwrite64|writev|ftruncate)\((\d+)", body)
        if m:
            fd = int(m.group(1))
            if fd in (1, 2):
                continue
            path, flags = fd_path.get(fd, ("?", ""))
            if os.path.basename(path) in outs:
                problems.append(f"write to an output path: {body[:160]}")
            elif "O_EXCL" not in flags and fd > 2:
                problems.append(f"write to an fd not opened O_EXCL ({path}, {flags})")
            continue
        m = re.match(r'(?:unlink|unlinkat|truncate)\((?:AT_FDCWD[^,]*, )?"([^"]*)"', body)
        if m and os.path.basename(m.group(1)) in outs:
            problems.append(f"output path removed or truncated: {body[:160]}")
            continue
        m = re.match(r'(?:rename|renameat|renameat2)\((?:AT_FDCWD[^,]*, )?"([^"]*)", (?:AT_FDCWD[^,]*, )?"([^"]*)"', body)
        if m and os.path.basename(m.group(1)) in outs:
            problems.append(f"output path renamed away: {body[:160]}")
    for p in problems[:3]:
        tally.violation("write-discipline:" + p.split(":")[0].replace(" ", "-"),
                        {"kind": "trace", "scenario": scen, "problem": p})
    return len(problems)


def kill_shard(shard, nshards, payload):
    """Runs the kill points of one scenario assigned to this shard."""
    t = vc.Tally()
    template, args, points, old, new, scen, scratch = (payload[k] for k in
                                                       ("template", "args", "points", "old", "new", "scen", "scratch"))
    for idx, (sc, k) in enumerate(points):
        if idx % nshards != shard:
            continue
        work = os.path.join(scratch, f"k{shard}")
        copy_tree(template, work)
        cmd = ["strace", "-f", "-o", "/dev/null", "-e", f"inject={sc}:signal=SIGKILL:when={k}"]
        rc, err = run_cli(work, args, prefix=cmd)
        t.inc("kills")
        state = outputs_state(work)
        outcome = []
        for p in sorted(set(old) | set(new)):
            have = state.get(p)
            if have is None:
                ok = p not in old
                outcome.append("absent")
            elif have == old.get(p):
                ok = True
                outcome.append("old")
            elif have == new.get(p):
                ok = True
                outcome.append("new")
            else:
                ok = False
                outcome.append("TORN")
            if not ok:
                what = "missing-although-present-before" if have is None else "neither-old-nor-new"
                t.violation(f"kill:{what}", {"kind": "kill", "scenario": scen, "syscall": sc, "when": k,
                                              "file": p, "exit": rc, "size": None if have is None else len(have)})
        stray = [p for p in state if p not in old and p not in new]
        if stray:
            t.violation("kill:unexpected-output-file", {"kind": "kill", "scenario": scen, "syscall": sc,
                                                        "when": k, "files": stray})
        t.distinct.add((scen, tuple(outcome)))
        t.inc("killed" if rc not in (0, 1) else "survived")
        shutil.rmtree(work, ignore_errors=True)
    return t


def part_c(tally, scratch, tier):
    scens = SCENARIOS if tier == "thorough" else ["fresh", "unchanged", "both-changed", "two-sources"]
    for scen in scens:
        template = os.path.join(scratch, "tpl-" + scen)
        args = prepare_scenario(template, scen)
        old = outputs_state(template)
        work = os.path.join(scratch, "trace-" + scen)
        rc, lines, counts = trace_run(template, work, args)
        if rc != 0:
            raise vc.MachineryError(f"scenario {scen}: un-killed run failed")
        new = outputs_state(work)
        shutil.rmtree(work, ignore_errors=True)
        nprob = check_write_discipline(tally, lines, set(old) | set(new), scen)
        tally.inc("trace_lines", len(lines))
        points = [(sc, k) for sc, n in sorted(counts.items()) for k in range(1, n + 1)
                  if sc not in ("exit_group", "exit")]
        tally.inc("kill_points", len(points))
        tally.inc("scenarios")
        rs = vc.run_sharded(kill_shard, {"template": template, "args": args, "points": points,
                                         "old": old, "new": new, "scen": scen, "scratch": scratch})
        m = vc.merge_tallies(rs)
        if m.counts.get("killed", 0) == 0:
            raise vc.MachineryError("no injected kill took effect (strace fault injection not working)")
        tally.merge(m)
        tally.sample({"scenario": scen, "syscalls_traced": len(lines), "kill_points": len(points),
                      "syscall_names": len(counts), "write_discipline_problems": nprob})
        shutil.rmtree(template, ignore_errors=True)


def main(tier, t0):
    vc.ensure_cli()
    tally = vc.Tally()
    global QUICK_TIER
    QUICK_TIER = tier == "quick"
    with vc.scratch_dir("c15") as scratch:
        part_a(tally, scratch)
        part_b(tally, scratch, tier)
        part_c(tally, scratch, tier)
    c = tally.counts
    outcomes = sorted({str(x) for x in tally.distinct if x[0] in SCENARIOS})
    cov = {
        "evaluations": c.get("path_runs", 0) + c.get("history_generates", 0) + c.get("kills", 0),
        "distinct_nontrivial": len(tally.distinct),
        "rule": "A: distinct (path shape, output directory, options) tuples; B: distinct event histories; "
                "C: distinct (scenario, outcome pattern over the output files) - every (syscall name, k) "
                "kill point of the traced run is executed once",
        "exhaustive": True,
        "path_runs": c.get("path_runs", 0), "expected_refusals": c.get("expected_refusals", 0),
        "histories": c.get("histories", 0), "history_generate_runs": c.get("history_generates", 0),
        "history_bound": 3 if tier == "thorough" else 2,
        "scenarios": c.get("scenarios", 0), "kill_points": c.get("kill_points", 0),
        "kills_executed": c.get("kills", 0), "processes_actually_killed": c.get("killed", 0),
        "trace_lines": c.get("trace_lines", 0),
        "kill_outcome_patterns": outcomes,
    }
    assumptions = [
        "process kill, not power loss: a kill is SIGKILL on entry to a system call (strace inject)",
        "the check runs as root, so 'output directory read-only' cannot be produced and is not explored",
        "stray temporary files after a kill are not judged (the statement speaks of the output paths)",
    ]
    return vc.finish("C15", tier, LEVEL, tally, cov, assumptions, t0)


def replay(path):
    vc.ensure_cli()
    r = json.load(open(path))
    c = r["case"]
    t = vc.Tally()
    with vc.scratch_dir("c15r") as scratch:
        if c.get("kind") == "kill":
            template = os.path.join(scratch, "tpl")
            args = prepare_scenario(template, c["scenario"])
            old = outputs_state(template)
            work = os.path.join(scratch, "trace")
            _rc, _lines, _counts = trace_run(template, work, args)
            new = outputs_state(work)
            m = kill_shard(0, 1, {"template": template, "args": args, "points": [(c["syscall"], c["when"])],
                                  "old": old, "new": new, "scen": c["scenario"], "scratch": scratch})
            t.merge(m)
        elif c.get("kind") == "history":
            part_b_history(t, scratch, tuple(c["history"]), c.get("output_directory"), {})
        else:
            part_a(t, scratch)
    if t.violations:
        print(f"VIOLATION property=C15 replay={path}")
        for sig, cc in t.violations:
            print("  ", sig)
        return 1
    print("replay: holds now")
    return 0
