"""C07  Totality: any document yields output or diagnostics, never a crash or hang.

Bounded-exhaustive inputs executed on the real code in all three modes, in-process with panic
capture (vdrive), plus CLI exit status on a subset and deep-nesting probes through the real
binary:
  (ii)  every single-token edit (delete, duplicate, swap, 12 punctuator replacements, prefix and
        suffix truncation) of the seed documents; thorough: every pair of deletions on the small seeds
  (iii) every token sequence of length <= 3 (thorough: 4) over a 24-token QML/JS alphabet in three
        wrappings (document / binding value / handler body)
  (iv)  semantic stressors: every special sink x every value kind (aimed at the unwrap_* guards)
  (v)   depth ladders 10/50/100 per nesting construct (must pass) and one deep probe each through
        the CLI (stack exhaustion is observed as exit status)
"""
import json
import os
import subprocess

import corpus
import vcommon as vc

LEVEL = "exploration"


def is_boundary(b, p):
    return p == len(b) or (b[p] & 0xC0) != 0x80


def panic_sig(msg):
    # "message @ /repo/lib/src/x.rs:123"  ->  panic:lib/src/x.rs:<message head without digits>
    loc = msg.rsplit(" @ ", 1)[-1] if " @ " in msg else "?"
    f = loc.rsplit(":", 1)[0].replace("/repo/", "")
    head = "".join(c for c in msg.split(" @ ")[0].split("\n")[0] if not c.isdigit())[:48].strip()
    return f"panic:{f}:{head}"


def judge(t, cid, src, r, modes=vc.MODES):
    """Applies the C07 oracle to one vdrive result."""
    t.inc("documents")
    case = {"id": cid, "source": src}
    if r.get("crashed"):
        t.violation(f"crash:engine-died:rc={r.get('returncode')}", case)
        return
    if r.get("timeout"):
        t.violation("hang:no-answer-within-deadline", case)
        return
    if "parse_panic" in r:
        t.violation(panic_sig(r["parse_panic"]), dict(case, panic=r["parse_panic"]))
        return
    b = src.encode("utf-8")
    n = len(b)

    def check_range(s, e, what, mode):
        if not (0 <= s <= e <= n):
            t.violation(f"range:{what}:outside-source", dict(case, mode=mode, range=[s, e], len=n))
            return False
        if not (is_boundary(b, s) and is_boundary(b, e)):
            t.violation(f"range:{what}:not-on-char-boundary", dict(case, mode=mode, range=[s, e]))
            return False
        return True

    syn = r.get("syntax")
    nsyn = 0
    if r.get("has_syntax_error"):
        t.inc("with_syntax_error")
        if syn is None or "panic" in syn:
            t.violation(panic_sig((syn or {}).get("panic", "syntax collection failed")),
                        dict(case, panic=(syn or {}).get("panic")))
            return
        nsyn = len(syn["errors"])
        if nsyn == 0:
            t.violation("syntax:has-error-but-no-error-collected", case)
        for e in syn["errors"]:
            check_range(e["s"], e["e"], "syntax-error", "-")
        if syn.get("render_ok") is False:
            t.violation("render:syntax-errors-failed", dict(case, err=syn.get("render_err")))
    outcome = []
    for m in modes:
        g = r["modes"][m]
        st = g.get("status")
        if st == "panic":
            t.violation(panic_sig(g["panic"]), dict(case, mode=m, panic=g["panic"]))
            outcome.append("panic")
            continue
        errs = [d for d in g["diagnostics"] if d["kind"] == "error"]
        for d in g["diagnostics"]:
            t.distinct.add(d["msg"][:40])
            check_range(d["s"], d["e"], "diagnostic", m)
            for (ls, le, _lm) in d["labels"]:
                check_range(ls, le, "label", m)
        if g.get("render_ok") is False:
            t.violation("render:diagnostics-failed", dict(case, mode=m, err=g.get("render_err")))
        if st == "built":
            if not isinstance(g.get("ui"), str):
                t.violation("output:built-but-not-serialisable", dict(case, mode=m))
            outcome.append("built-with-errors" if errs else "built")
        else:
            if not errs and nsyn == 0:
                t.violation("output:no-form-and-no-error", dict(case, mode=m))
            outcome.append("none")
    key = ("syn" if nsyn else "nosyn") + ":" + "/".join(outcome)
    t.inc("outcome:" + key)


def shard_work(shard, nshards, payload):
    tier = payload["tier"]
    vd = vc.worker_vdrive(job_timeout=90.0)
    t = vc.Tally()
    k = 0

    def run(cid, src):
        r = vd.job({"id": cid, "source": src, "modes": list(vc.MODES), "render": True})
        judge(t, cid, src, r)

    # (ii) single edits
    for name, text in corpus.all_seeds(tier):
        for desc, mutated in corpus.single_edits(text):
            if k % nshards == shard:
                run(f"{name}#{desc}", mutated)
                t.inc("class:single-edit")
            k += 1
    # pairs of deletions on the small seeds (thorough)
    if tier == "thorough":
        small = sorted(corpus.all_seeds(tier), key=lambda s: len(s[1]))[:4]
        for name, text in small:
            for desc, mutated in corpus.pair_deletions(text):
                if k % nshards == shard:
                    run(f"{name}#{desc}", mutated)
                    t.inc("class:pair-deletion")
                k += 1
    # (iii) token soup
    maxlen = 4 if tier == "thorough" else 3
    total = corpus.soup_count(maxlen)
    for i in range(shard, total, nshards):
        cid, src = corpus.soup_case(i)
        run(cid, src)
        t.inc("class:token-soup")
    # (iv) stressors
    for j, (cid, src) in enumerate(corpus.stressor_docs_all()):
        if j % nshards == shard:
            run(cid, src)
            t.inc("class:stressor")
    # (iv-b) the generators of the other checks: what they would have to write off as "lost to a panic"
    # is judged here (quick: their own sub-sampling for shared use; thorough: everything)
    import importlib
    j = 0
    for mname in ("c03", "c04", "c05", "c09", "c10", "c11", "c12", "c20"):
        gen = getattr(importlib.import_module(f"checks.{mname}"), "documents", None)
        if gen is None:
            continue
        for cid, src in gen(tier, for_c14=(tier == "quick")):
            if j % nshards == shard:
                run(f"{mname}:{cid}", src)
                t.inc("class:other-corpora")
            j += 1
    # (v) ladders that must pass
    jobs = [(kind, d) for kind in corpus.LADDER_KINDS for d in (10, 50, 100)]
    for j, (kind, d) in enumerate(jobs):
        if j % nshards == shard:
            src = corpus.nested(kind, d)
            run(f"ladder/{kind}/{d}", src)
            t.inc("class:ladder")
    # the unmodified seeds themselves
    if shard == 0:
        for name, text in corpus.all_seeds(tier):
            run(f"{name}#orig", text)
            t.sample({"id": name, "source_head": text[:120]})
    return t


def cli_probe(args_sources, cwd, timeout=120):
    cmd = [vc.QMLUIC_BIN, "generate-ui", "--foreign-types", vc.METATYPES,
           "--foreign-types", vc.VTYPES] + args_sources
    env = dict(os.environ, NO_COLOR="1")
    try:
        p = subprocess.run(cmd, cwd=cwd, env=env, stdout=subprocess.PIPE, stderr=subprocess.PIPE,
                           timeout=timeout)
        return p.returncode, p.stderr.decode("utf-8", "replace")
    except subprocess.TimeoutExpired:
        return "timeout", ""


def cli_part(tier, tally):
    """Exit status must be 0 or 1: deep probes (one per construct) + a sample of mutated docs."""
    deep = {"binary": 3000, "binary-const": 3000, "logical": 3000, "unary": 3000, "ternary": 3000,
            "paren": 20000, "block": 8000, "if": 4000, "object": 10000, "array": 5000,
            "dotted": 20000, "member": 3000, "statements": 20000, "cases": 5000, "children": 3000,
            "string-concat": 3000}
    with vc.scratch_dir("c07") as d:
        for kind, depth in deep.items():
            if tier == "quick" and kind in ("children", "cases"):
                depth = min(depth, 1500)   # quadratic translation time, keep the quick tier quick
            src = corpus.nested(kind, depth)
            p = os.path.join(d, "Deep.qml")
            with open(p, "w") as f:
                f.write(src)
            rc, err = cli_probe(["Deep.qml"], d, timeout=600)
            tally.inc("cli_runs")
            tally.inc(f"cli_exit:{rc}")
            if rc not in (0, 1):
                what = "stack-overflow" if rc in (-6, -11, 134, 139) else f"exit-{rc}"
                tally.violation(f"cli:{what}:deep-{kind}",
                                {"id": f"deep/{kind}/{depth}", "kind": "cli-deep", "construct": kind,
                                 "depth": depth, "exit": rc, "stderr_tail": err[-300:]})
        # a sample of edited documents through the real command (exit status only)
        k = 0
        for name, text in corpus.all_seeds("quick")[:3]:
            for desc, mutated in corpus.single_edits(text):
                k += 1
                if k % (97 if tier == "quick" else 17) != 0:
                    continue
                with open(os.path.join(d, "Case.qml"), "w") as f:
                    f.write(mutated)
                rc, err = cli_probe(["Case.qml"], d)
                tally.inc("cli_runs")
                tally.inc(f"cli_exit:{rc}")
                if rc not in (0, 1):
                    tally.violation(f"cli:exit-{rc}:mutated-document",
                                    {"id": f"{name}#{desc}", "kind": "cli", "source": mutated,
                                     "exit": rc, "stderr_tail": err[-300:]})
        for cid, src in list(corpus.stressor_docs())[::(53 if tier == "quick" else 7)]:
            with open(os.path.join(d, "Case.qml"), "w") as f:
                f.write(src)
            rc, err = cli_probe(["Case.qml"], d)
            tally.inc("cli_runs")
            tally.inc(f"cli_exit:{rc}")
            if rc not in (0, 1):
                tally.violation(f"cli:exit-{rc}:stressor",
                                {"id": cid, "kind": "cli", "source": src, "exit": rc,
                                 "stderr_tail": err[-300:]})


def project_part(tally):
    """Documents that live in directories (QML components, string imports, inheritance and import
    cycles): in-process through the path API of the driver, and through the real command."""
    vd = vc.VDrive(job_timeout=60.0)
    for name, files, sources in corpus.PROJECTS:
        with vc.scratch_dir("c07p") as d:
            for rel, text in files.items():
                p = os.path.join(d, rel)
                os.makedirs(os.path.dirname(p), exist_ok=True)
                with open(p, "w") as f:
                    f.write(text)
            for s in sources:
                r = vd.job({"id": f"project/{name}/{s}", "path": os.path.join(d, s), "modes": list(vc.MODES),
                            "render": True})
                src = files[s]
                tally.inc("class:project")
                if r.get("crashed") or r.get("timeout"):
                    what = "hang" if r.get("timeout") else f"crash:rc={r.get('returncode')}"
                    tally.violation(f"project:{what}:{name}", {"id": f"project/{name}/{s}", "kind": "project",
                                                               "project": name, "source_file": s, "files": files})
                    continue
                judge(tally, f"project/{name}/{s}", src, r)
            for order in (sources, list(reversed(sources))):
                rc, err = cli_probe(list(order), d, timeout=120)
                tally.inc("cli_runs")
                tally.inc(f"cli_exit:{rc}")
                if rc not in (0, 1):
                    tally.violation(f"project:cli-exit-{rc}:{name}", {"id": f"project/{name}", "kind": "project",
                                                                      "project": name, "order": list(order),
                                                                      "files": files, "exit": rc, "stderr_tail": err[-300:]})
    vd.close()


def main(tier, t0):
    vc.ensure_vdrive()
    vc.ensure_cli()
    rs = vc.run_sharded(shard_work, {"tier": tier})
    tally = vc.merge_tallies(rs)
    project_part(tally)
    cli_part(tier, tally)
    c = tally.counts
    outcomes = {k: v for k, v in c.items() if k.startswith("outcome:")}
    cov = {
        "evaluations": c.get("documents", 0) * 3 + c.get("cli_runs", 0),
        "distinct_nontrivial": c.get("documents", 0),
        "rule": "documents are enumerated (every single-token edit of each seed, every token sequence "
                "up to the stated length, every sink x value stressor, ladders); each is distinct by "
                "construction and is built in all three modes (evaluations = documents x 3 + CLI "
                "runs); non-vacuity: see outcome classes and the number of distinct diagnostic "
                "messages reached",
        "exhaustive": True,
        "bound_completed": {"single_edits": "all", "token_soup_max_len": 4 if tier == "thorough" else 3,
                            "pair_deletions": tier == "thorough"},
        "classes": {k: v for k, v in c.items() if k.startswith("class:")},
        "outcome_classes": outcomes,
        "with_syntax_error": c.get("with_syntax_error", 0),
        "distinct_diagnostic_messages": len(tally.distinct),
        "cli": {k: v for k, v in c.items() if k.startswith("cli_")},
    }
    assumptions = [
        "termination is judged by a 90 s per-document deadline (a document that exceeds it is a violation)",
        "the in-process driver runs on a 256 MB stack; stack exhaustion is judged only through the "
        "real CLI binary (8 MB main thread), one deep probe per nesting construct",
    ]
    return vc.finish("C07", tier, LEVEL, tally, cov, assumptions, t0)


def replay(path):
    vc.ensure_vdrive()
    r = json.load(open(path))
    case = r["case"]
    t = vc.Tally()
    if case.get("kind") == "cli-deep":
        vc.ensure_cli()
        with vc.scratch_dir("c07r") as d:
            with open(os.path.join(d, "Deep.qml"), "w") as f:
                f.write(corpus.nested(case["construct"], case["depth"]))
            rc, _ = cli_probe(["Deep.qml"], d, timeout=600)
        print("exit status", rc)
        if rc not in (0, 1):
            print(f"VIOLATION property=C07 replay={path}")
            return 1
        return 0
    if case.get("kind") == "project":
        vc.ensure_cli()
        keep = corpus.PROJECTS
        corpus.PROJECTS = [p for p in keep if p[0] == case["project"]]
        project_part(t)
        corpus.PROJECTS = keep
        if t.violations:
            print(f"VIOLATION property=C07 replay={path}")
            return 1
        print("replay: holds now")
        return 0
    vd = vc.VDrive()
    src = case["source"]
    res = [vd.job({"id": 0, "source": src, "modes": list(vc.MODES), "render": True}) for _ in range(2)]
    vd.close()
    if json.dumps(res[0], sort_keys=True) != json.dumps(res[1], sort_keys=True):
        print("replay is not deterministic")
        return 2
    judge(t, case.get("id"), src, res[0])
    if t.violations:
        print(f"VIOLATION property=C07 replay={path}")
        for s, _ in t.violations:
            print("  ", s)
        return 1
    print("replay: holds now")
    return 0
