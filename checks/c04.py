"""C04  Every binding is embedded, generated, or diagnosed; errors write nothing.

Deviation-bounded documents over a catalogue of binding kinds x subject classes x host positions:
  bound 1: every (class, kind) alone and every (class, fault) alone;
  bound 2: every pair of kinds on one object, every kind x fault pair;
  bound 3 (thorough): triples of kinds, and two-object trees with a fault at every position.
Oracle for accepted documents: a *ledger* - every written leaf binding is looked up in the .ui
(by object name + the documented mapping of its kind) and in the behaviour of the support header
(compiled against the Qt model, setup() run under tracing, signals emitted): exactly one place,
with the written value.  Oracle for fault documents: an Error diagnostic inside the faulty
binding's text; through the real command: exit status != 0 and neither output of that source
created or touched (fresh and pre-seeded stale outputs, single and multi-source command lines).
"""
import itertools
import json
import os
import re
import subprocess

import harness
import qml
import qtmock
import uiread
import vcommon as vc

LEVEL = "exploration"
SRC_S, SRC_I, SRC_B = "SRC", 7, True

_TYPES = None


def types():
    global _TYPES
    if _TYPES is None:
        _TYPES = qtmock.load_types()
    return _TYPES


def hexs(s):
    b = s.encode("utf-16-be")
    return "".join("%02x" % x for x in b)


def class_props(cls):
    """name -> property dict, nearest class first."""
    out = {}
    t = types()
    for c in [cls] + [a for a in qtmock.ancestors(cls, t)]:
        for p in t.get(c, {}).get("properties", []):
            out.setdefault(p["name"], p)
    return out


def class_signals(cls):
    t = types()
    out = {}
    for c in [cls] + [a for a in qtmock.ancestors(cls, t)]:
        for s in t.get(c, {}).get("signals", []):
            out.setdefault(s["name"], []).append(s)
    return out


# --------------------------------------------------------------------------- ledger leaves

class Leaf:
    """One written scalar binding and where it must land."""

    def __init__(self, label, item, obj, dynamic, ui=None, setter=None, shown=None, member=None,
                 in_mixed_group=False, handler=None, maybe=False, hdr_text=None):
        self.label = label
        self.item = item            # qml.B or qml.G carrying it (for spans and reports)
        self.obj = obj
        self.dynamic = dynamic
        self.ui = ui                # locator tuple, see ui_hits()
        self.setter = setter        # setter name on obj (header side)
        self.shown = shown          # expected rendering of the value in the trace
        self.member = member        # gadget member name (shown inside {...})
        self.in_mixed_group = in_mixed_group
        self.handler = handler      # (emit label) for signal handlers
        self.maybe = maybe
        self.hdr_text = hdr_text    # for maybe-kinds whose effect is a connection: text the header must contain


class KindInst:
    def __init__(self, name, items, leaves, roots, emits=(), children=(), fault=None, maybe=False, host_items=()):
        self.name = name
        self.items = items          # items added to the subject object
        self.leaves = leaves
        self.roots = set(roots)     # property roots used (pairs must not share one)
        self.emits = list(emits)    # [(label, C++ statement)]
        self.children = list(children)   # extra child objects of the subject
        self.fault = fault          # list of items one of which must carry the error, or None
        self.maybe = maybe          # support is unspecified: accepted => effect, rejected => diagnostic inside
        self.host_items = list(host_items)


def ui_value_text(e):
    """(tag, text) of the single value child of a property/attribute element."""
    if not e.children:
        return (None, None)
    v = e.children[0]
    return (v.tag, v.text)


def ui_hits(ui_root, leaf):
    """Number of places in the .ui that carry this leaf with the written value."""
    loc = leaf.ui
    if loc is None:
        return 0
    e = uiread.find_object(ui_root, leaf.obj)
    kind = loc[0]
    if kind == "addaction-separator":
        # QAction { separator: true } is replaced by <addaction name="separator"/> on the parent
        parent = uiread.find_object(ui_root, loc[1])
        return sum(1 for a in parent.findall("addaction") if a.attrs.get("name") == "separator") if parent is not None else 0
    if e is None:
        return 0
    if kind in ("prop", "attr"):
        _k, name, tag, text = loc
        n = 0
        for c in e.findall("property" if kind == "prop" else "attribute"):
            if c.attrs.get("name") == name and ui_value_text(c) == (tag, text):
                n += 1
        return n
    if kind == "gprop":
        _k, name, gtag, mtag, text, as_attr = loc
        n = 0
        for c in e.findall("property"):
            if c.attrs.get("name") != name or not c.children or c.children[0].tag != gtag:
                continue
            g = c.children[0]
            if as_attr:
                n += 1 if g.attrs.get(mtag) == text else 0
            else:
                n += sum(1 for m in g.findall(mtag) if m.text == text)
        return n
    if kind == "itemattr":
        _k, attr, text = loc
        it = e.parent
        return 1 if it is not None and it.tag == "item" and it.attrs.get(attr) == text else 0
    if kind == "items":
        texts = []
        for it in e.findall("item"):
            p = uiread.prop(it, "text")
            texts.append(p.children[0].text if p is not None and p.children else None)
        return 1 if texts == list(loc[1]) else 0
    if kind == "addaction":
        return sum(1 for a in e.findall("addaction") if a.attrs.get("name") == loc[1])
    if kind == "layoutarray":
        _k, lay_name, attr, index, text = loc
        le = uiread.find_object(ui_root, lay_name)
        parts = le.attrs.get(attr, "").split(",") if le is not None and le.attrs.get(attr) else []
        return 1 if index < len(parts) and parts[index] == text else 0
    if kind == "cell":
        # effect of columns/rows/flow: the cell of the probe child
        c = uiread.find_object(ui_root, loc[1])
        it = c.parent if c is not None else None
        return 1 if it is not None and (it.attrs.get("row"), it.attrs.get("column")) == (loc[2], loc[3]) else 0
    raise AssertionError(kind)


def ui_mentions(ui_root, leaf):
    """Number of elements that mention the leaf's property at all (any value)."""
    loc = leaf.ui
    if loc is None:
        return 0
    if loc[0] not in ("prop", "attr", "gprop"):
        return ui_hits(ui_root, leaf)
    e = uiread.find_object(ui_root, leaf.obj)
    if e is None:
        return 0
    if loc[0] in ("prop", "attr"):
        return sum(1 for c in e.findall("property" if loc[0] == "prop" else "attribute") if c.attrs.get("name") == loc[1])
    if loc[0] == "gprop":
        n = 0
        for c in e.findall("property"):
            if c.attrs.get("name") == loc[1] and c.children:
                g = c.children[0]
                n += (1 if loc[3] in g.attrs else 0) if loc[5] else len(g.findall(loc[3]))
        return n
    return ui_hits(ui_root, leaf)


def hdr_calls(trace, leaf):
    """Calls of the leaf's setter on its object recorded while setup() ran: [value text]."""
    pre = f"{leaf.obj}.{leaf.setter}("
    return [x[len(pre):-1] for x in trace if x.startswith(pre) and x.endswith(")")]


DEFAULTS = {"0", "false", "s:", "e0", None}


def member_value(value, leaf):
    if leaf.member is None:
        return value
    m = re.match(r"^\{(.*)\}$", value)
    if not m:
        return None
    return dict(f.split("=", 1) for f in m.group(1).split(",") if "=" in f).get(leaf.member)


def hdr_value_matches(value, leaf):
    if leaf.member is None:
        return value == leaf.shown
    m = re.match(r"^\{(.*)\}$", value)
    if not m:
        return False
    fields = dict(f.split("=", 1) for f in m.group(1).split(",") if "=" in f)
    return fields.get(leaf.member) == leaf.shown


# --------------------------------------------------------------------------- value spellings

class Uniq:
    def __init__(self):
        self.n = 10

    def next(self):
        self.n += 1
        return self.n


def val_str(u, dynamic):
    k = u.next()
    if dynamic:
        return f'srcS.text + "K{k}"', ("string", None), "s:" + hexs(f"{SRC_S}K{k}")
    return f'"K{k}"', ("string", f"K{k}"), "s:" + hexs(f"K{k}")


def val_int(u, dynamic):
    k = u.next()
    if dynamic:
        return f"srcI.value + {k}", ("number", None), str(SRC_I + k)
    return str(k), ("number", str(k)), str(k)


def val_bool(u, dynamic, want=True):
    if dynamic:
        return ("srcB.checked" if want else "!srcB.checked"), ("bool", None), "true" if want else "false"
    return ("true" if want else "false"), ("bool", "true" if want else "false"), "true" if want else "false"


ENUM_PROPS = {
    # property: (namespace in QML, C++ scope, enum name, chosen value, other value)
    "layoutDirection": ("Qt", "Qt", "LayoutDirection", "RightToLeft", "LeftToRight"),
    "sizeConstraint": ("QLayout", "QLayout", "SizeConstraint", "SetFixedSize", "SetNoConstraint"),
    "orientation": ("Qt", "Qt", "Orientation", "Vertical", "Horizontal"),
    "focusPolicy": ("Qt", "Qt", "FocusPolicy", "StrongFocus", "NoFocus"),
}


def enum_index(scope, ename, value):
    owner = qtmock.find_enum(scope, ename, types())
    e = next(x for x in types()[owner]["enums"] if x["name"] == ename)
    return e["values"].index(value)


# --------------------------------------------------------------------------- kind catalogue

STR_PREF = ["toolTip", "text", "title", "statusTip", "whatsThis", "windowTitle", "placeholderText"]
BOOL_PREF = ["enabled", "checkable", "visible", "autoFillBackground", "acceptDrops"]
INT_PREF = ["spacing", "minimumWidth", "maximumWidth", "horizontalSpacing"]
SIG_PREF = ["clicked", "triggered", "windowTitleChanged", "objectNameChanged"]


class Subject:
    """A class in a host position, with the properties the kinds will use."""

    def __init__(self, cls, host, sfx=""):
        self.cls = cls
        self.host = host
        self.sfx = sfx
        self.obj = "root" if host == "root" else "subj" + sfx
        props = class_props(cls)
        self.props = props

        def pick(pref, ty, skip=()):
            for n in pref:
                p = props.get(n)
                if p and p["type"] == ty and p.get("write") and p.get("read") and n not in skip:
                    return n
            return None
        self.strp = pick(STR_PREF, "QString")
        self.strp2 = pick(STR_PREF, "QString", skip=(self.strp,))
        self.boolp = pick(BOOL_PREF, "bool")
        self.intp = pick(INT_PREF, "int")
        self.enump = next((n for n in ENUM_PROPS if n in props and (props[n].get("write") or host == "spacer")), None)
        self.has_font = "font" in props and props["font"]["type"] == "QFont"
        self.has_szp = "sizePolicy" in props
        self.sizep = next((n for n in ("minimumSize", "sizeHint", "iconSize") if n in props and props[n]["type"] == "QSize"
                           and (props[n].get("write") or host == "spacer")), None)
        self.has_geometry = "geometry" in props and host != "root"
        sigs = class_signals(cls)
        self.signal = None
        for s in SIG_PREF:
            if s in sigs:
                ov = sigs[s]
                # one C++ function (default-argument chain) only
                if len({len(x.get("arguments", [])) for x in ov}) == len(ov):
                    longest = max(ov, key=lambda x: len(x.get("arguments", [])))
                    args = []
                    for a in longest.get("arguments", []):
                        args.append({"bool": "false", "int": "0", "QString": "QString()"}.get(a["type"]))
                    if None not in args:
                        self.signal = (s, ", ".join(args))
                        break
        self.is_widget = cls == "QWidget" or "QWidget" in qtmock.ancestors(cls, types())
        self.is_layout = "QLayout" in qtmock.ancestors(cls, types())

    def setter(self, prop):
        return self.props[prop].get("write")


def scalar_kinds(sj, u):
    """const/dynamic x str/int/bool/enum."""
    out = []
    for tyname, prop, valfn in (("str", sj.strp, val_str), ("int", sj.intp, val_int), ("bool", sj.boolp, val_bool)):
        if not prop:
            continue
        for dyn in (False, True):
            src, (tag, text), shown = valfn(u, dyn)
            b = qml.B(prop, src)
            leaf = Leaf(f"{'dyn' if dyn else 'const'}-{tyname}", b, sj.obj, dyn, ui=("prop", prop, tag, text),
                        setter=sj.setter(prop), shown=shown)
            out.append(KindInst(leaf.label, [b], [leaf], [prop]))
    if sj.enump:
        ns, scope, ename, v1, v0 = ENUM_PROPS[sj.enump]
        b = qml.B(sj.enump, f"{ns}.{v1}")
        out.append(KindInst("const-enum", [b], [Leaf("const-enum", b, sj.obj, False, ui=("prop", sj.enump, "enum", f"{scope}::{v1}"),
                                                      setter=sj.setter(sj.enump), shown=f"e{enum_index(scope, ename, v1)}")], [sj.enump]))
        b = qml.B(sj.enump, f"srcB.checked ? {ns}.{v1} : {ns}.{v0}")
        if sj.setter(sj.enump):
            out.append(KindInst("dyn-enum", [b], [Leaf("dyn-enum", b, sj.obj, True, ui=("prop", sj.enump, "enum", None),
                                                    setter=sj.setter(sj.enump), shown=f"e{enum_index(scope, ename, v1)}")], [sj.enump]))
    return out


def group_items(notation, name, members):
    """members: [(member name, source)] -> (items, {member: carrying item})"""
    if notation == "braces":
        bs = [qml.B(m, s) for m, s in members]
        g = qml.G(name, bs)
        return [g], {m: g for m, _s in members}
    if notation == "dotted":
        bs = [qml.B(f"{name}.{m}", s) for m, s in members]
        return bs, {m: b for (m, _s), b in zip(members, bs)}
    # split: first member dotted, rest in braces
    b0 = qml.B(f"{name}.{members[0][0]}", members[0][1])
    rest = [qml.B(m, s) for m, s in members[1:]]
    g = qml.G(name, rest)
    d = {members[0][0]: b0}
    d.update({m: g for m, _s in members[1:]})
    return [b0, g], d


FONT_UI = {"pointSize": "pointsize", "bold": "bold", "italic": "italic", "family": "family", "weight": "weight"}


def font_kinds(sj, u):
    if not sj.has_font:
        return []
    out = []
    for shape, dyn_flags in (("const", (False, False, False)), ("mixed", (False, True, False)),
                             ("mixed2", (True, False, False)), ("dyn", (True, True, True))):
        for notation in ("braces", "dotted", "split"):
            if shape == "mixed2" and notation != "braces":
                continue
            specs = []
            for (member, fn), dyn in zip((("pointSize", val_int), ("bold", val_bool), ("family", val_str)), dyn_flags):
                src, (tag, text), shown = fn(u, dyn)
                specs.append((member, src, dyn, text, shown))
            items, carrier = group_items(notation, "font", [(m, s) for m, s, *_ in specs])
            mixed = any(sp[2] for sp in specs)
            leaves = []
            for member, _src, dyn, text, shown in specs:
                leaves.append(Leaf(f"font-{shape}-{notation}:{member}", carrier[member], sj.obj, dyn,
                                   ui=("gprop", "font", "font", FONT_UI[member], text, False),
                                   setter="setFont", shown=shown, member=member, in_mixed_group=mixed))
            out.append(KindInst(f"font-{shape}-{notation}", items, leaves, ["font"]))
    return out


def sizepolicy_kinds(sj, u):
    if not sj.has_szp:
        return []
    out = []
    for shape, dyn in (("const", False), ("mixed", True)):
        for notation in ("braces", "dotted"):
            src, (_tag, text), shown = val_int(u, dyn)
            members = [("horizontalPolicy", "QSizePolicy.Fixed"), ("verticalPolicy", "QSizePolicy.Expanding"),
                       ("horizontalStretch", src)]
            items, carrier = group_items(notation, "sizePolicy", members)
            pol = next(x for x in types()["QSizePolicy"]["enums"] if x["name"] == "Policy")["values"]
            leaves = [
                Leaf(f"sizePolicy-{shape}:horizontalPolicy", carrier["horizontalPolicy"], sj.obj, False,
                     ui=("gprop", "sizePolicy", "sizepolicy", "hsizetype", "Fixed", True), setter="setSizePolicy",
                     shown=f"e{pol.index('Fixed')}", member="horizontalPolicy", in_mixed_group=dyn),
                Leaf(f"sizePolicy-{shape}:verticalPolicy", carrier["verticalPolicy"], sj.obj, False,
                     ui=("gprop", "sizePolicy", "sizepolicy", "vsizetype", "Expanding", True), setter="setSizePolicy",
                     shown=f"e{pol.index('Expanding')}", member="verticalPolicy", in_mixed_group=dyn),
                Leaf(f"sizePolicy-{shape}:horizontalStretch", carrier["horizontalStretch"], sj.obj, dyn,
                     ui=("gprop", "sizePolicy", "sizepolicy", "horstretch", text, False), setter="setSizePolicy",
                     shown=shown, member="horizontalStretch", in_mixed_group=dyn),
            ]
            out.append(KindInst(f"sizePolicy-{shape}-{notation}", items, leaves, ["sizePolicy"]))
    return out


def size_kinds(sj, u):
    out = []
    if sj.sizep:
        for notation in ("braces", "dotted"):
            (ws, (_t, wt), _s1), (hs, (_t2, ht), _s2) = val_int(u, False), val_int(u, False)
            items, carrier = group_items(notation, sj.sizep, [("width", ws), ("height", hs)])
            leaves = [Leaf(f"size-const:{m}", carrier[m], sj.obj, False, ui=("gprop", sj.sizep, "size", m, txt, False),
                           setter=sj.setter(sj.sizep)) for m, txt in (("width", wt), ("height", ht))]
            out.append(KindInst(f"size-const-{notation}", items, leaves, [sj.sizep]))
        # dynamic member of a gadget without readable members: support unspecified
        src, _x, shown = val_int(u, True)
        items, carrier = group_items("braces", sj.sizep, [("width", src), ("height", "3")])
        out.append(KindInst("size-dyn-member", items,
                            [Leaf("size-dyn:width", items[0], sj.obj, True, ui=("gprop", sj.sizep, "size", "width", None, False),
                                  setter=sj.setter(sj.sizep), shown=shown, member="width", maybe=True)],
                            [sj.sizep], maybe=True))
    if sj.has_geometry:
        vals = [val_int(u, False) for _ in range(4)]
        members = list(zip(("x", "y", "width", "height"), [v[0] for v in vals]))
        items, carrier = group_items("braces", "geometry", members)
        leaves = [Leaf(f"rect-const:{m}", carrier[m], sj.obj, False, ui=("gprop", "geometry", "rect", m, v[1][1], False),
                       setter="setGeometry") for (m, _s), v in zip(members, vals)]
        out.append(KindInst("rect-const", items, leaves, ["geometry"]))
    return out


def handler_kinds(sj, u):
    if not sj.signal:
        return []
    sig, args = sj.signal
    on = "on" + sig[0].upper() + sig[1:]
    recv = "root" if sj.host == "root" else sj.obj
    out = []
    for form in ("expr", "block", "function"):
        k = u.next()
        text = f"H{k}"
        body = {"expr": f'tgt.text = "{text}"', "block": f'{{ tgt.text = "{text}" }}',
                "function": f'function() {{ tgt.text = "{text}" }}'}[form]
        b = qml.B(on, body)
        label = f"emit{k}"
        leaf = Leaf(f"handler-{form}", b, "tgt", True, setter="setText", shown="s:" + hexs(text), handler=label)
        out.append(KindInst(f"handler-{form}", [b], [leaf], [on], emits=[(label, f"{recv}->{sig}({args});")]))
    return out


def special_kinds(sj, u):
    """Pseudo-properties and attached properties; depend on class and host."""
    out = []
    t = types()
    anc = [sj.cls] + list(qtmock.ancestors(sj.cls, t))
    if sj.host == "layout-child":
        b = qml.B("QLayout.alignment", "Qt.AlignRight")
        out.append(KindInst("attached-layout-alignment", [b],
                            [Leaf("attached-layout-alignment", b, sj.obj, False, ui=("itemattr", "alignment", "Qt::AlignRight"))],
                            ["QLayout.alignment"]))
        br, bc = qml.B("QLayout.row", "2"), qml.B("QLayout.column", "1")
        out.append(KindInst("attached-layout-cell", [br, bc],
                            [Leaf("attached-layout-row", br, sj.obj, False, ui=("itemattr", "row", "2")),
                             Leaf("attached-layout-column", bc, sj.obj, False, ui=("itemattr", "column", "1"))],
                            ["QLayout.row", "QLayout.column"]))
        bs = qml.B("QLayout.columnSpan", "2")
        out.append(KindInst("attached-layout-span", [bs],
                            [Leaf("attached-layout-span", bs, sj.obj, False, ui=("itemattr", "colspan", "2"))], ["QLayout.columnSpan"]))
        # a per-column / per-row setting written after a sibling that set a higher index
        for name, attr, idx_attr in (("columnStretch", "columnstretch", "column"), ("rowStretch", "rowstretch", "row"),
                                     ("columnMinimumWidth", "columnminimumwidth", "column")):
            k1, k2 = u.next(), u.next()
            other = "row" if idx_attr == "column" else "column"
            sib = qml.Obj("QLabel", f"sib{k1}{sj.sfx}", [qml.B(f"QLayout.{idx_attr}", "1"), qml.B(f"QLayout.{other}", "0"), qml.B(f"QLayout.{name}", str(k1))])
            bs = [qml.B(f"QLayout.{idx_attr}", "0"), qml.B(f"QLayout.{other}", "1"), qml.B(f"QLayout.{name}", str(k2))]
            out.append(KindInst(f"attached-{name}-after-higher-index", bs,
                                [Leaf(f"attached-{name}", bs[2], sj.obj, False, ui=("layoutarray", "hostlay" + sj.sfx, attr, 0, str(k2)))],
                                ["QLayout.row", "QLayout.column", f"QLayout.{name}"], host_items=[sib]))
        b = qml.B("QLayout.alignment", "srcB.checked ? Qt.AlignLeft : Qt.AlignRight")
        out.append(KindInst("attached-layout-dyn", [b], [Leaf("attached-layout-dyn", b, sj.obj, True, shown="e", maybe=True)],
                            ["QLayout.alignment"], maybe=True))
    if sj.host == "page":
        src, (tag, text), _sh = val_str(u, False)
        b = qml.B("QTabWidget.title", src)
        out.append(KindInst("attached-tab-title", [b],
                            [Leaf("attached-tab-title", b, sj.obj, False, ui=("attr", "title", tag, text))], ["QTabWidget.title"]))
        src, (tag, text), _sh = val_str(u, False)
        b = qml.B("QTabWidget.toolTip", src)
        out.append(KindInst("attached-tab-toolTip", [b],
                            [Leaf("attached-tab-toolTip", b, sj.obj, False, ui=("attr", "toolTip", tag, text))], ["QTabWidget.toolTip"]))
        src, _x, shown = val_str(u, True)
        b = qml.B("QTabWidget.title", src)
        out.append(KindInst("attached-tab-dyn", [b], [Leaf("attached-tab-dyn", b, sj.obj, True, shown=shown, maybe=True)],
                            ["QTabWidget.title"], maybe=True))
    if "QComboBox" in anc or "QListWidget" in anc:
        k1, k2 = u.next(), u.next()
        b = qml.B("model", f'["M{k1}", "M{k2}"]')
        out.append(KindInst("model-const", [b], [Leaf("model-const", b, sj.obj, False, ui=("items", (f"M{k1}", f"M{k2}")))], ["model"]))
        src, _x, shown = val_str(u, True)
        b = qml.B("model", f"[{src}]")
        out.append(KindInst("model-dyn", [b], [Leaf("model-dyn", b, sj.obj, True, shown=shown[2:], maybe=True)], ["model"], maybe=True))
    if sj.is_widget and sj.host != "root":
        k = u.next()
        a1, a2 = f"actA{k}", f"actB{k}"
        b = qml.B("actions", f"[{a2}, {a1}]")
        src, (tag, text), _sh = val_str(u, False)
        tb = qml.B("text", src)
        kids = [qml.Obj("QAction", a1, [tb]), qml.Obj("QAction", a2)]
        out.append(KindInst("actions-list", [b],
                            [Leaf("actions-list:0", b, sj.obj, False, ui=("addaction", a2)),
                             Leaf("actions-list:1", b, sj.obj, False, ui=("addaction", a1)),
                             Leaf("actions-child-text", tb, a1, False, ui=("prop", "text", tag, text), setter="setText")],
                            ["actions"], children=kids))
        k = u.next()
        sb = qml.B("separator", "true")
        out.append(KindInst("separator-const", [], [Leaf("separator-const", sb, f"sep{k}", False, ui=("addaction-separator", sj.obj),
                                                    setter="setSeparator", shown="true")],
                            ["@sep"], children=[qml.Obj("QAction", f"sep{k}", [sb])]))
        k = u.next()
        sb = qml.B("separator", "srcB.checked")
        out.append(KindInst("separator-dyn", [], [Leaf("separator-dyn", sb, f"sep{k}", True, ui=("prop", "separator", "bool", None),
                                                       setter="setSeparator", shown="true")],
                            ["@sep"], children=[qml.Obj("QAction", f"sep{k}", [sb])]))
    if sj.cls == "QGridLayout":
        b = qml.B("columns", "1")
        out.append(KindInst("grid-columns", [b], [Leaf("grid-columns", b, sj.obj, False, ui=("cell", "c1" + sj.sfx, "1", "0"))], ["columns"]))
        bf, brw = qml.B("flow", "QGridLayout.TopToBottom"), qml.B("rows", "1")
        out.append(KindInst("grid-flow-rows", [bf, brw],
                            [Leaf("grid-flow", bf, sj.obj, False, ui=("cell", "c1" + sj.sfx, "0", "1")),
                             Leaf("grid-rows", brw, sj.obj, False, ui=("cell", "c1" + sj.sfx, "0", "1"))], ["columns", "flow", "rows"]))
        src, _x, shown = val_int(u, True)
        b = qml.B("columns", src)
        out.append(KindInst("grid-columns-dyn", [b], [Leaf("grid-columns-dyn", b, sj.obj, True, shown=shown, maybe=True)],
                            ["columns"], maybe=True))
    if "QTableView" in anc:
        for hname in ("horizontalHeader", "verticalHeader"):
            for notation in ("braces", "dotted"):
                src, (tag, text), _sh = val_int(u, False)
                items, carrier = group_items(notation, hname, [("defaultSectionSize", src), ("visible", "false")])
                out.append(KindInst(f"{hname}-const-{notation}", items,
                                    [Leaf(f"{hname}:defaultSectionSize", carrier["defaultSectionSize"], sj.obj, False,
                                          ui=("attr", hname + "DefaultSectionSize", tag, text)),
                                     Leaf(f"{hname}:visible", carrier["visible"], sj.obj, False,
                                          ui=("attr", hname + "Visible", "bool", "false"))], [hname]))
        for notation, hname in (("dotted", "horizontalHeader"), ("braces", "verticalHeader")):
            k = u.next()
            hb = qml.B("onSectionClicked", f'tgt.text = "H{k}"')
            items = [qml.B(f"{hname}.onSectionClicked", hb.value)] if notation == "dotted" else [qml.G(hname, [hb])]
            out.append(KindInst(f"{hname}-handler-{notation}", items,
                                [Leaf(f"{hname}-handler", items[0], sj.obj, True, shown="-", maybe=True, hdr_text="::sectionClicked")],
                                [hname], maybe=True))
        src, _x, shown = val_int(u, True)
        items, _c = group_items("braces", "horizontalHeader", [("defaultSectionSize", src)])
        out.append(KindInst("horizontalHeader-dyn", items, [Leaf("horizontalHeader-dyn", items[0], sj.obj, True, shown=shown, maybe=True)],
                            ["horizontalHeader"], maybe=True))
    if "QTreeView" in anc:
        src, (tag, text), _sh = val_int(u, False)
        items, carrier = group_items("braces", "header", [("defaultSectionSize", src), ("visible", "false")])
        out.append(KindInst("header-const", items,
                            [Leaf("header:defaultSectionSize", carrier["defaultSectionSize"], sj.obj, False,
                                  ui=("attr", "headerDefaultSectionSize", tag, text)),
                             Leaf("header:visible", carrier["visible"], sj.obj, False, ui=("attr", "headerVisible", "bool", "false"))],
                            ["header"]))
        k = u.next()
        items = [qml.B("header.onSectionClicked", f'tgt.text = "H{k}"')]
        out.append(KindInst("header-handler-dotted", items,
                            [Leaf("header-handler", items[0], sj.obj, True, shown="-", maybe=True, hdr_text="::sectionClicked")],
                            ["header"], maybe=True))
        items, _c = group_items("braces", "header", [("visible", "srcB.checked")])
        out.append(KindInst("header-dyn", items, [Leaf("header-dyn", items[0], sj.obj, True, shown="true", maybe=True)],
                            ["header"], maybe=True))
    if sj.is_layout:
        for notation in ("braces", "dotted"):
            vals = [val_int(u, False) for _ in range(4)]
            names = ("left", "top", "right", "bottom")
            items, carrier = group_items(notation, "contentsMargins", list(zip(names, [v[0] for v in vals])))
            out.append(KindInst(f"margins-const-{notation}", items,
                                [Leaf(f"margins:{n}", carrier[n], sj.obj, False, ui=("prop", n + "Margin", "number", v[1][1]),
                                      setter="setContentsMargins") for n, v in zip(names, vals)], ["contentsMargins"]))
        src, _x, shown = val_int(u, True)
        items, _c = group_items("braces", "contentsMargins", [("left", src)])
        out.append(KindInst("margins-dyn", items, [Leaf("margins-dyn", items[0], sj.obj, True, shown=shown, maybe=True)],
                            ["contentsMargins"], maybe=True))
    if "QPushButton" in anc:
        b = qml.B("default_", "true")
        out.append(KindInst("default-const", [b], [Leaf("default-const", b, sj.obj, False, ui=("prop", "default", "bool", "true"),
                                                        setter="setDefault", shown="true")], ["default_"]))
        b = qml.B("default_", "srcB.checked")
        out.append(KindInst("default-dyn", [b], [Leaf("default-dyn", b, sj.obj, True, ui=("prop", "default", "bool", None),
                                                      setter="setDefault", shown="true")], ["default_"]))
    return out


def fault_kinds(sj, u):
    out = []

    def F(name, items, faulty=None, roots=()):
        out.append(KindInst("fault:" + name, items, [], roots, fault=list(faulty or items)))
    F("unknown-property", [qml.B("zzUnknown", "1")])
    F("unknown-property-dynamic", [qml.B("zzUnknown", "srcI.value")])
    F("unknown-signal", [qml.B("onZzUnknown", 'tgt.text = "x"')])
    F("unknown-attached-type", [qml.B("ZzType.foo", "1")])
    if sj.strp:
        p = sj.strp
        F("ill-typed-const-str", [qml.B(p, "1")], roots=[p])
        F("unknown-id", [qml.B(p, "zzNo.text")], roots=[p])
        F("ill-typed-dyn-str", [qml.B(p, "srcI.value")], roots=[p])
        F("unsupported-template-string", [qml.B(p, "`tpl`")], roots=[p])
        F("unsupported-typeof", [qml.B(p, "typeof srcS.text")], roots=[p])
        F("duplicate", [qml.B(p, '"a"'), qml.B(p, '"b"')], roots=[p])
        F("duplicate-dynamic", [qml.B(p, "srcS.text"), qml.B(p, '"b"')], roots=[p])
        F("group-on-scalar-dotted", [qml.B(p + ".x", "1")], roots=[p])
        F("group-on-scalar-braces", [qml.G(p, [qml.B("x", "1")])], roots=[p])
        F("unknown-member-of-object", [qml.B(p, "srcS.zzNo")], roots=[p])
        F("void-call-as-value", [qml.B(p, "srcS.clear()")], roots=[p])
    if sj.boolp:
        p = sj.boolp
        F("ill-typed-const-bool", [qml.B(p, '"x"')], roots=[p])
        F("ill-typed-dyn-bool", [qml.B(p, "srcS.text")], roots=[p])
        F("int-as-bool", [qml.B(p, "srcI.value")], roots=[p])
    if sj.intp:
        p = sj.intp
        F("ill-typed-const-int", [qml.B(p, '"x"')], roots=[p])
        F("unsupported-operator", [qml.B(p, "srcI.value ** 2")], roots=[p])
        F("mixed-int-double", [qml.B(p, "srcI.value + 1.5")], roots=[p])
    if sj.enump:
        ns = ENUM_PROPS[sj.enump][0]
        F("unknown-enum-value", [qml.B(sj.enump, f"{ns}.ZzNo")], roots=[sj.enump])
        F("int-as-enum", [qml.B(sj.enump, "1")], roots=[sj.enump])
    if sj.host == "spacer":
        F("spacer-dynamic", [qml.B("orientation", "srcB.checked ? Qt.Vertical : Qt.Horizontal")], roots=["orientation"])
    if sj.is_widget:
        F("read-only-const", [qml.B("width", "1")], roots=["width"])
        F("read-only-dynamic", [qml.B("height", "srcI.value")], roots=["height"])
    if sj.has_font:
        F("unknown-gadget-member-dotted", [qml.B("font.zzNo", "1")], roots=["font"])
        F("unknown-gadget-member-braces", [qml.G("font", [qml.B("bold", "true"), qml.B("zzNo", "1")])], roots=["font"])
        F("callback-on-gadget-dotted", [qml.B("font.onZz", 'tgt.text = "x"')], roots=["font"])
        F("callback-on-gadget-braces", [qml.G("font", [qml.B("onFamilyChanged", 'tgt.text = "x"')])], roots=["font"])
        F("ill-typed-gadget-member", [qml.G("font", [qml.B("bold", "srcB.checked"), qml.B("pointSize", "srcS.text")])], roots=["font"])
        F("scalar-to-gadget", [qml.B("font", "srcS.text")], roots=["font"])
        F("duplicate-gadget-member", [qml.B("font.family", "srcS.text"), qml.B("font.family", '"x"')], roots=["font"])
    if "buddy" in sj.props:
        F("group-on-object-property", [qml.G("buddy", [qml.B("enabled", "true")])], roots=["buddy"])
        F("group-on-object-property-dynamic", [qml.G("buddy", [qml.B("enabled", "srcB.checked")])], roots=["buddy"])
    if sj.has_szp:
        F("sizepolicy-half", [qml.G("sizePolicy", [qml.B("horizontalPolicy", "QSizePolicy.Fixed")])], roots=["sizePolicy"])
    if sj.signal:
        sig = sj.signal[0]
        on = "on" + sig[0].upper() + sig[1:]
        F("handler-ill-typed-assignment", [qml.B(on, "tgt.text = 1")], roots=[on])
        F("handler-unknown-id", [qml.B(on, 'zzNo.text = "a"')], roots=[on])
        F("handler-too-many-parameters", [qml.B(on, "function(a: int, b: int, c: int, d: int) {}")], roots=[on])
        F("handler-assign-read-only", [qml.B(on, "{ tgt.width = 1 }")], roots=[on])
        F("handler-unsupported-statement", [qml.B(on, "{ for (;;) {} }")], roots=[on])
        F("handler-duplicate", [qml.B(on, 'tgt.text = "a"'), qml.B(on, 'tgt.text = "b"')], roots=[on])
    # a signal the type information overloads by argument *type* (neither list is a prefix of the other) cannot be
    # connected by name: a handler on it is unsupported, on every class that has one
    nearest = {}
    for c_ in [sj.cls] + list(qtmock.ancestors(sj.cls, types())):
        here = {}
        for e in types().get(c_, {}).get("signals", []):
            here.setdefault(e["name"], []).append(e)
        for n_, es in here.items():
            nearest.setdefault(n_, es)          # the nearest class that declares the name hides the others
    for name, own in sorted(nearest.items()):
        lists = [[a["type"] for a in e.get("arguments", [])] for e in own]
        if any(not (x[:len(y)] == y or y[:len(x)] == x) for x in lists for y in lists):
            on = "on" + name[0].upper() + name[1:]
            F("handler-on-signal-overloaded-by-type", [qml.B(on, 'tgt.text = "x"')], roots=[on])
            break
    if sj.cls == "QGridLayout":
        # a count of cells per line that is not a positive number has no effect the form could carry: diagnosed, for the
        # axis the flow wraps at and for the other one
        for cname, val in (("columns", "0"), ("rows", "0"), ("columns", "-1"), ("rows", "-1")):
            F(f"grid-{cname}-{'zero' if val == '0' else 'negative'}", [qml.B(cname, val)], roots=[cname])
            F(f"grid-{cname}-{'zero' if val == '0' else 'negative'}-top-to-bottom", [qml.B("flow", "QGridLayout.TopToBottom"), qml.B(cname, val)],
              faulty=None, roots=["flow", cname])
    if sj.host in ("plain", "page", "root"):
        F("layout-attached-outside-layout", [qml.B("QLayout.row", "1")], roots=["QLayout.row"])
    if sj.host in ("plain", "layout-child") and sj.is_widget:
        F("tab-attached-outside-tabwidget", [qml.B("QTabWidget.title", '"x"')], roots=["QTabWidget.title"])
    if sj.host == "layout-child":
        F("unknown-attached-property", [qml.B("QLayout.zzNo", "1")])
        F("attached-callback", [qml.B("QLayout.onZz", "1")])
        F("attached-ill-typed", [qml.B("QLayout.row", '"x"')], roots=["QLayout.row"])
    return out


def all_kinds(sj):
    u = Uniq()
    if sj.sfx:
        u.n = 500       # a second subject draws its values, ids and labels from another range
    good = scalar_kinds(sj, u) + font_kinds(sj, u) + sizepolicy_kinds(sj, u) + size_kinds(sj, u) + \
        handler_kinds(sj, u) + special_kinds(sj, u)
    return good, fault_kinds(sj, u)


# --------------------------------------------------------------------------- documents

SUBJECTS = [
    ("QWidget", "layout-child"), ("QWidget", "plain"), ("QWidget", "root"), ("QWidget", "page"),
    ("QDialog", "root"), ("QLabel", "layout-child"), ("QLabel", "page"), ("QPushButton", "layout-child"),
    ("QComboBox", "layout-child"), ("QListWidget", "plain"), ("QTableView", "plain"), ("QTreeView", "plain"),
    ("QTabWidget", "plain"), ("QGroupBox", "plain"), ("QLineEdit", "layout-child"),
    ("QVBoxLayout", "layout"), ("QHBoxLayout", "layout"), ("QGridLayout", "layout"), ("QFormLayout", "layout"),
    ("QSpacerItem", "spacer"), ("QAction", "action"), ("QMenu", "plain"),
    ("QTableView", "page"), ("QTreeView", "page"), ("QComboBox", "page"),
]
QUICK_PAIR_SUBJECTS = {("QLabel", "layout-child"), ("QPushButton", "layout-child"), ("QWidget", "root"),
                       ("QVBoxLayout", "layout"), ("QGridLayout", "layout"), ("QAction", "action"),
                       ("QTableView", "plain"), ("QWidget", "page"), ("QComboBox", "layout-child"), ("QTableView", "page")}


def sources():
    return [qml.Obj("QLineEdit", "srcS"), qml.Obj("QSpinBox", "srcI"), qml.Obj("QCheckBox", "srcB"), qml.Obj("QLabel", "tgt")]


def build_doc(sj, kinds, root=None):
    """-> (root Obj, subject Obj); with `root` given the subject's subtree is added to that document"""
    items = []
    for k in kinds:
        items += k.items
    kids = []
    for k in kinds:
        kids += k.children
    if sj.host == "root":
        subj = qml.Obj(sj.cls, "root", items + sources() + kids)
        return subj, subj
    x = sj.sfx
    subj = qml.Obj(sj.cls, "subj" + x, items + kids)
    if root is None:
        root = qml.Obj("QWidget", "root", sources())
    if sj.host == "plain":
        root.add(subj)
    elif sj.host == "layout-child":
        before = [o for k in kinds for o in k.host_items]       # siblings written before the subject
        root.add(qml.Obj("QWidget", "host" + x, [qml.Obj("QGridLayout", "hostlay" + x, before + [subj])]))
    elif sj.host == "page":
        root.add(qml.Obj("QTabWidget", "host" + x, [subj]))
    elif sj.host == "layout":
        subj.add(qml.Obj("QLabel", "c0" + x), qml.Obj("QLabel", "c1" + x))
        root.add(qml.Obj("QWidget", "host" + x, [subj]))
    elif sj.host == "spacer":
        root.add(qml.Obj("QWidget", "host" + x, [qml.Obj("QVBoxLayout", "hostlay" + x, [subj])]))
    elif sj.host == "action":
        root.add(qml.Obj("QMenu", "host" + x, [subj]))
    else:
        raise AssertionError(sj.host)
    return root, subj


def combos(tier):
    """Yields (subject key, [kind indices good], [kind indices fault]) - enumerated simplest first."""
    for si, (cls, host) in enumerate(SUBJECTS):
        sj = Subject(cls, host)
        good, faults = all_kinds(sj)
        ng, nf = len(good), len(faults)
        for i in range(ng):
            yield si, (i,), ()
        for j in range(nf):
            yield si, (), (j,)
        pairs_here = tier == "thorough" or (cls, host) in QUICK_PAIR_SUBJECTS
        if pairs_here:
            for i, k in itertools.combinations(range(ng), 2):
                if good[i].roots & good[k].roots:
                    continue
                yield si, (i, k), ()
            for i in range(ng):
                for j in range(nf):
                    if good[i].roots & faults[j].roots:
                        continue
                    if tier != "thorough" and (i + j) % 3:
                        continue
                    yield si, (i,), (j,)
        if tier == "thorough" and (cls, host) in QUICK_PAIR_SUBJECTS:
            for a, b, c in itertools.combinations(range(ng), 3):
                if (good[a].roots & good[b].roots) or (good[a].roots & good[c].roots) or (good[b].roots & good[c].roots):
                    continue
                if (a + b + c) % 4:
                    continue
                yield si, (a, b, c), ()


def instantiate(si, gi, fi, second=None):
    cls, host = SUBJECTS[si]
    sj = Subject(cls, host)
    good, faults = all_kinds(sj)
    kinds = [good[i] for i in gi] + [faults[j] for j in fi]
    root, subj = build_doc(sj, kinds)
    if second:
        si2, gi2, fi2 = second
        cls2, host2 = SUBJECTS[si2]
        sj2 = Subject(cls2, host2, sfx="2")
        good2, faults2 = all_kinds(sj2)
        kinds2 = [good2[i] for i in gi2] + [faults2[j] for j in fi2]
        build_doc(sj2, kinds2, root=root)
        kinds = kinds + kinds2
    return sj, kinds, root


REPRESENTATIVE = ("const-str", "dyn-str", "dyn-bool", "const-enum", "font-mixed-braces", "font-const-dotted", "handler-expr",
                  "sizePolicy-mixed-braces", "attached-layout-cell", "attached-tab-title", "model-const", "actions-list",
                  "separator-dyn", "grid-columns", "horizontalHeader-const-braces", "margins-const-braces", "default-dyn",
                  "const-int", "dyn-int")
REPRESENTATIVE_FAULTS = ("fault:unknown-property", "fault:ill-typed-dyn-str", "fault:read-only-dynamic", "fault:duplicate",
                         "fault:unknown-gadget-member-braces", "fault:handler-unknown-id", "fault:unknown-attached-type",
                         "fault:ill-typed-const-int", "fault:unknown-signal")


def tree_combos(tier):
    """Two subjects in one document (siblings below the root, or the root itself plus one below it): one
    representative kind each, and a representative fault at either position."""
    keys = sorted(QUICK_PAIR_SUBJECTS) if tier == "thorough" else [("QLabel", "layout-child"), ("QWidget", "root"), ("QVBoxLayout", "layout"), ("QAction", "action")]
    idx = [SUBJECTS.index(k) for k in keys]
    menus = {}
    for si in idx:
        sj = Subject(*SUBJECTS[si])
        good, faults = all_kinds(sj)
        menus[si] = ([i for i, k in enumerate(good) if k.name in REPRESENTATIVE],
                     [j for j, k in enumerate(faults) if k.name in REPRESENTATIVE_FAULTS])
    for s1 in idx:
        for s2 in idx:
            if SUBJECTS[s2][1] == "root":
                continue
            g1, f1 = menus[s1]
            g2, f2 = menus[s2]
            for n, (a, b) in enumerate(itertools.product(g1, g2)):
                if tier == "thorough" or n % 3 == 0:
                    yield s1, (a,), (), (s2, (b,), ())
            for n, (a, b) in enumerate(itertools.product(g1, f2)):
                if tier == "thorough" or n % 5 == 0:
                    yield s1, (a,), (), (s2, (), (b,))
            for n, (a, b) in enumerate(itertools.product(f1, g2)):
                if tier == "thorough" or n % 5 == 0:
                    yield s1, (), (a,), (s2, (b,), ())


def documents(tier, for_c14=False):
    """Bound-1 documents of the catalogue (shared with C14's three-mode relations)."""
    for cid, (si, gi, fi) in enumerate(combos("quick")):
        if len(gi) + len(fi) != 1:
            continue
        _sj, _kinds, root = instantiate(si, gi, fi)
        yield (f"cat/{cid}", qml.render(root))


def span_of(item, src_bytes):
    s, e = item.span
    while e < len(src_bytes) and src_bytes[e:e + 1] in (b" ",):
        e += 1
    if src_bytes[e:e + 1] == b";":
        e += 1          # the binding node of the grammar includes its terminating semicolon
    return (s, e)


def driver(kinds):
    emits = []
    for k in kinds:
        emits += k.emits
    blocks = []
    for label, code in emits:
        blocks.append(f"""
        verif::trace().clear(); verif::tracing() = true;
        VERIF_GUARD("@PID@", "{label}!", {code.rstrip(';')});
        verif::tracing() = false;
        {{ std::string j; for (auto &x : verif::trace()) j += x + ";"; emit("@PID@", "{label}", j); }}""")
    return f"""    auto body = [&]() {{
        @SETUP@
        srcS->setText({harness.cxx_str(SRC_S)}); srcI->setValue({SRC_I}); srcB->setChecked({'true' if SRC_B else 'false'});
        UiSupport::@PID@ sup(root, ui);
        verif::trace().clear(); verif::tracing() = true;
        sup.setup();
        verif::tracing() = false;
        {{ std::string j; for (auto &x : verif::trace()) j += x + ";"; emit("@PID@", "setup", j); }}
        {''.join(blocks)}
    }};
    VERIF_GUARD("@PID@", "body!", body()); verif::tracing() = false;"""


WARN_IMPORTS = ("qmluic.QtWidgets 6.2",)      # "import version is ignored": a warning beside whatever else is reported


def judge_static(t, vd, cid, si, gi, fi, second=None, warn=False):
    """Translates one document, judges everything that does not need the compiled header; returns a
    harness.Program for the behavioural part (or None)."""
    sj, kinds, root = instantiate(si, gi, fi, second)
    src = qml.render(root, imports=WARN_IMPORTS) if warn else qml.render(root)
    sb = src.encode("utf-8")
    pid = f"P{cid}"
    case = {"id": cid, "combo": [si, list(gi), list(fi)] + ([[second[0], list(second[1]), list(second[2])]] if second else []),
            "subject": list(SUBJECTS[si]), "warn": warn,
            "kinds": [k.name for k in kinds], "source": src}
    r = vd.job({"id": cid, "source": src, "modes": ["generate"], "type_name": pid})
    if r.get("crashed") or r.get("timeout") or "modes" not in r or r["modes"]["generate"].get("status") == "panic":
        t.lost.append({"id": cid, "source": src})
        return None
    g = r["modes"]["generate"]
    t.inc("documents")
    t.distinct.add(src)
    acc = vc.accepted(g, r.get("has_syntax_error"))
    if r.get("has_syntax_error"):
        raise vc.MachineryError("catalogue document does not parse:\n" + src)
    if warn:
        t.inc("documents_with_a_warning")
        if not any(d["kind"] == "warning" for d in g.get("diagnostics", [])):
            raise vc.MachineryError("the warning carrier produced no warning:\n" + src)
    errors = [d for d in g.get("diagnostics", []) if d["kind"] == "error"]
    faults = [k for k in kinds if k.fault]
    maybes = [k for k in kinds if k.maybe]
    for k in kinds:
        t.inc("kind:" + k.name)
    if faults:
        t.inc("fault_documents")
        fk = faults[0]
        if acc:
            t.violation(f"fault-accepted:{fk.name[6:]}", case)
            return None
        spans = [span_of(it, sb) for it in fk.fault]
        inside = [d for d in errors if any(qml.within((d["s"], d["e"]), sp) for sp in spans)]
        if not inside:
            t.violation(f"diagnostic-outside-binding:{fk.name[6:]}",
                        dict(case, spans=spans, diagnostics=[(d["s"], d["e"], d["msg"]) for d in errors]))
        else:
            t.inc("fault_diagnostics_inside_binding")
        return None
    if not acc:
        if maybes:
            # unspecified support: a rejection must be explained inside one of those bindings
            t.inc("maybe_rejected")
            spans = [span_of(it, sb) for k in maybes for it in k.items]
            outside = [d for d in errors if not any(qml.within((d["s"], d["e"]), sp) for sp in spans)]
            if not errors or outside:
                t.violation(f"diagnostic-outside-binding:{maybes[0].name}",
                            dict(case, spans=spans, diagnostics=[(d["s"], d["e"], d["msg"]) for d in errors]))
            return None
        t.violation("valid-document-rejected:" + "+".join(k.name for k in kinds), dict(case, diagnostics=g.get("diagnostics")))
        return None
    t.inc("accepted_documents")
    ui_root = uiread.parse(g["ui"])
    leaves = [l for k in kinds for l in k.leaves]
    for l in leaves:
        if l.maybe or l.handler:
            continue
        t.inc("leaves_ui_side")
        hits = ui_hits(ui_root, l) if not l.dynamic else 0
        mentions = ui_mentions(ui_root, l)
        if l.dynamic:
            if mentions:
                t.violation(f"dynamic-binding-also-in-ui:{l.label}", dict(case, leaf=l.label))
        elif l.in_mixed_group:
            if hits > 1 or (mentions and not hits):
                t.violation(f"ui-value-wrong:{l.label}", dict(case, leaf=l.label, hits=hits, mentions=mentions))
        else:
            if mentions > hits:
                t.violation(f"ui-value-wrong:{l.label}", dict(case, leaf=l.label, hits=hits, mentions=mentions, ui=g["ui"]))
            elif hits > 1:
                t.violation(f"ui-value-duplicated:{l.label}", dict(case, leaf=l.label, hits=hits, ui=g["ui"]))
    if not g.get("header"):
        for l in leaves:
            if l.dynamic or l.handler:
                t.violation(f"dynamic-binding-nowhere:{l.label}", dict(case, leaf=l.label, note="no header produced"))
        return None
    if second:
        t.inc("two_subject_documents")
    p = harness.Program(pid, g["ui"], g["header"], driver(kinds), {"case": case, "combo": (si, gi, fi, second)})
    return p


def judge_run(t, p, res):
    case = p.meta["case"]
    si, gi, fi, second = p.meta["combo"]
    sj, kinds, root = instantiate(si, gi, fi, second)
    qml.render(root)
    if res["compile_error"]:
        t.violation("generated-header-does-not-compile", dict(case, compile_error=res["compile_error"][-1500:]))
        return
    if res["crash"]:
        t.violation("generated-code-crashed", dict(case, crash=res["crash"][-500:]))
        return
    got = {}
    for k, v in res["lines"]:
        got[k] = v
    bad = [k for k in got if k.endswith("!")]
    if bad:
        t.violation("exception:" + got[bad[0]].split(":")[0], dict(case, what=got[bad[0]], at=bad[0]))
        return
    if "setup" not in got:
        t.lost.append({"id": case["id"], "note": "no setup line"})
        return
    setup = [x for x in got["setup"].split(";") if x]
    ui_root = uiread.parse(p.ui_text)
    t.inc("programs_run")
    leaves = [l for k in kinds for l in k.leaves]
    for l in leaves:
        if l.handler:
            tr = [x for x in got.get(l.handler, "").split(";") if x]
            want = f"{l.obj}.{l.setter}({l.shown})"
            t.inc("handler_leaves")
            # the property asks that the handler takes effect; "exactly once, and nothing else" is C13's
            if want not in tr:
                t.violation(f"handler-effect:{l.label}", dict(case, leaf=l.label, expected=[want], observed=tr))
            elif tr != [want]:
                t.inc("handler_traces_with_more_than_the_effect")
            continue
        if l.maybe:
            # accepted although support is unspecified: the dynamic value must reach *some* call
            t.inc("maybe_accepted")
            if l.hdr_text is not None:
                if l.hdr_text not in p.header_text:
                    t.violation(f"accepted-without-effect:{l.label}", dict(case, leaf=l.label, header_must_contain=l.hdr_text))
            elif not any(l.shown in x for x in setup):
                t.violation(f"accepted-without-effect:{l.label}", dict(case, leaf=l.label, trace=setup))
            continue
        if not l.setter or not (l.dynamic or l.in_mixed_group):
            continue
        t.inc("leaves_header_side")
        calls = hdr_calls(setup, l)
        if l.dynamic:
            # setup() may evaluate a binding more than once; every evaluation must carry the value
            ok = [c for c in calls if hdr_value_matches(c, l)]
            if not calls or len(ok) != len(calls):
                sig = "dynamic-binding-nowhere" if not calls else "header-value-wrong"
                t.violation(f"{sig}:{l.label}", dict(case, leaf=l.label, expected=l.shown, calls=calls, trace=setup))
            elif len(calls) > 1:
                t.inc("bindings_evaluated_more_than_once_in_setup")
        elif l.in_mixed_group:
            ok = [c for c in calls if hdr_value_matches(c, l)]
            uih = ui_hits(ui_root, l)
            # the model's objects start from default values (the .ui is not applied to them): a member
            # the header leaves alone shows its default, a repeated one must show the written value
            other = [c for c in calls if not hdr_value_matches(c, l) and member_value(c, l) not in DEFAULTS]
            if l.shown is not None and len(ok) + uih == 0:
                t.violation(f"mixed-group-constant-member-lost:{l.label}",
                            dict(case, leaf=l.label, expected=l.shown, calls=calls, ui_hits=uih))
            elif l.shown is not None and other:
                t.violation(f"mixed-group-constant-member-repeated-with-other-value:{l.label}",
                            dict(case, leaf=l.label, expected=l.shown, calls=calls))
    for l in leaves:
        if l.handler or l.maybe or l.dynamic or l.in_mixed_group:
            continue
        # a constant scalar: exactly one place
        t.inc("leaves_header_side")
        uih = ui_hits(ui_root, l)
        calls = hdr_calls(setup, l) if l.setter else []
        ok = [c for c in calls if hdr_value_matches(c, l)] if l.shown is not None else calls
        if len(ok) != len(calls):
            t.violation(f"header-value-wrong:{l.label}", dict(case, leaf=l.label, expected=l.shown, calls=calls))
        elif uih + len(ok) == 0:
            if l.label == "separator-const" and "actions-list" in case["kinds"]:
                sig = "separator-action-not-listed-in-explicit-actions-is-dropped"
            else:
                sig = f"constant-binding-nowhere:{l.label}"
            t.violation(sig, dict(case, leaf=l.label, ui=p.ui_text))
        elif uih >= 1 and len(ok) >= 1:
            t.violation(f"constant-binding-in-both-places:{l.label}", dict(case, leaf=l.label, ui_hits=uih, calls=calls))
        elif uih > 1:
            t.violation(f"ui-value-duplicated:{l.label}", dict(case, leaf=l.label, ui_hits=uih))
    # nothing else may be set on the subject during setup(): every call must belong to a leaf
    allowed = {(l.obj, l.setter) for l in leaves if l.setter and not l.handler}
    for x in setup:
        m = re.match(r"^(\w+)\.(\w+)\(", x)
        if m and (m.group(1), m.group(2)) not in allowed and not any(l.maybe for l in leaves):
            t.inc("setup_calls_not_attributable_to_a_written_binding")     # observed, not judged
            break


BATCH = 40


def shard_work(shard, nshards, payload):
    tier = payload["tier"]
    vd = vc.worker_vdrive()
    t = vc.Tally()
    progs_ = []
    only = payload.get("only")
    for cid, (si, gi, fi) in enumerate(combos(tier)):
        if only is not None:
            if [si, list(gi), list(fi)] != only:
                continue
        elif cid % nshards != shard:
            continue
        p = judge_static(t, vd, cid, si, gi, fi)
        if p is not None:
            progs_.append(p)
        if len(gi) + len(fi) == 1 or (tier == "thorough" and len(fi) == 1):
            # the same document with a warning in it: a warning changes neither the ledger nor the verdict
            p = judge_static(t, vd, 2000000 + cid, si, gi, fi, warn=True)
            if p is not None:
                progs_.append(p)
    for n, (si, gi, fi, second) in enumerate(tree_combos(tier)):
        if only is not None:
            if [si, list(gi), list(fi), [second[0], list(second[1]), list(second[2])]] != only:
                continue
        elif n % nshards != shard:
            continue
        p = judge_static(t, vd, 1000000 + n, si, gi, fi, second)
        if p is not None:
            progs_.append(p)
    for i in range(0, len(progs_), BATCH):
        chunk = progs_[i:i + BATCH]
        res = harness.run_batch(chunk, tag="c04")
        for p in chunk:
            judge_run(t, p, res[p.pid])
    return t


# --------------------------------------------------------------------------- all-class sweep (static)

def sweep_classes():
    t = types()
    out = []
    for name, c in sorted(t.items()):
        if not c.get("object"):
            continue
        anc = qtmock.ancestors(name, t)
        if name != "QWidget" and "QWidget" not in anc:
            continue
        if name.startswith("V") or name.endswith("1"):
            continue
        out.append(name)
    return out


def sweep_work(shard, nshards, payload):
    """Every widget class of the type map x scalar kinds + generic faults, .ui side and header text side."""
    vd = vc.worker_vdrive()
    t = vc.Tally()
    for ci, cls in enumerate(sweep_classes()):
        if ci % nshards != shard:
            continue
        sj = Subject(cls, "plain")
        u = Uniq()
        good = scalar_kinds(sj, u) + font_kinds(sj, u)[:4] + handler_kinds(sj, u)[:1]
        faults = fault_kinds(sj, u)
        for kind in good + faults:
            root, _s = build_doc(sj, [kind])
            src = qml.render(root)
            sb = src.encode()
            r = vd.job({"id": ci, "source": src, "modes": ["generate"], "type_name": "S"})
            if r.get("crashed") or r.get("timeout") or "modes" not in r or r["modes"]["generate"].get("status") == "panic":
                t.lost.append({"id": ci, "source": src})
                continue
            g = r["modes"]["generate"]
            acc = vc.accepted(g, r.get("has_syntax_error"))
            case = {"sweep": [cls, kind.name], "source": src}
            t.inc("sweep_documents")
            t.distinct.add(src)
            errors = [d for d in g.get("diagnostics", []) if d["kind"] == "error"]
            if kind.fault:
                if acc:
                    t.violation(f"fault-accepted:{kind.name[6:]}", case)
                elif not any(qml.within((d["s"], d["e"]), span_of(it, sb)) for d in errors for it in kind.fault):
                    t.violation(f"diagnostic-outside-binding:{kind.name[6:]}", dict(case, diagnostics=[(d["s"], d["e"], d["msg"]) for d in errors]))
                continue
            if not acc:
                # abstract or uncreatable classes are rejected for another reason; the error must then
                # not point into the (valid) binding
                if any(qml.within((d["s"], d["e"]), span_of(it, sb)) for d in errors for it in kind.items):
                    t.violation("valid-document-rejected:" + kind.name, dict(case, diagnostics=g.get("diagnostics")))
                else:
                    t.inc("sweep_class_not_instantiable")
                continue
            ui_root = uiread.parse(g["ui"])
            header = g.get("header") or ""
            for l in kind.leaves:
                if l.handler:
                    n = len(re.findall(r"QObject::connect\(this->ui_->subj, [^\n]*::%s\)?, this->root_" % re.escape(sj.signal[0]), header))
                    if n != 1:
                        t.violation(f"handler-effect:{l.label}", dict(case, connects=n))
                    continue
                calls = len(re.findall(r"this->ui_->subj->%s\(" % re.escape(l.setter), header)) if l.setter else 0
                hits, mentions = (ui_hits(ui_root, l) if not l.dynamic else 0), ui_mentions(ui_root, l)
                t.inc("sweep_leaves")
                if l.dynamic:
                    if mentions:
                        t.violation(f"dynamic-binding-also-in-ui:{l.label}", case)
                    if calls != 1:
                        t.violation(f"dynamic-binding-nowhere:{l.label}", dict(case, calls=calls))
                elif l.in_mixed_group:
                    if hits == 0 and calls == 0:
                        t.violation(f"mixed-group-constant-member-lost:{l.label}", case)
                else:
                    if hits != 1 or mentions != 1:
                        t.violation(f"constant-binding-not-in-ui:{l.label}", dict(case, hits=hits, mentions=mentions))
                    if calls:
                        t.violation(f"constant-binding-also-in-header:{l.label}", case)
    return t


# --------------------------------------------------------------------------- the real command

def snapshot(d):
    snap = {}
    for fn in sorted(os.listdir(d)):
        p = os.path.join(d, fn)
        st = os.lstat(p)
        with open(p, "rb") as f:
            snap[fn] = (st.st_ino, st.st_mtime_ns, st.st_size, vc.sha(f.read()))
    return snap


def run_cli(cwd, args):
    cmd = [vc.QMLUIC_BIN, "generate-ui", "--foreign-types", vc.METATYPES] + args
    p = subprocess.run(cmd, cwd=cwd, env=dict(os.environ, NO_COLOR="1"), stdout=subprocess.PIPE, stderr=subprocess.PIPE, timeout=60)
    return p.returncode, p.stderr.decode("utf-8", "replace")


GOOD_SRC = 'import qmluic.QtWidgets\nQWidget {\n    QCheckBox { id: cb }\n    QLabel { visible: cb.checked; text: "g" }\n}\n'


def cli_scenarios():
    # (name, file order, stale outputs pre-seeded?, output directory?)
    for stale in (False, True):
        for outdir in (False, True):
            yield ("single", ["Bad"], stale, outdir)
    yield ("bad-first", ["Bad", "GoodA"], False, False)
    yield ("bad-last", ["GoodA", "Bad"], False, False)
    yield ("bad-middle", ["GoodA", "Bad", "GoodB"], True, False)
    yield ("bad-middle-outdir", ["GoodA", "Bad", "GoodB"], False, True)
    yield ("single-with-warning", ["Bad"], False, False)
    yield ("single-with-warning", ["Bad"], True, False)
    yield ("bad-last-with-warning", ["GoodA", "Bad"], False, False)


def cli_work(shard, nshards, payload):
    tier = payload["tier"]
    vd = vc.worker_vdrive()
    t = vc.Tally()
    jobs = []
    for cid, (si, gi, fi) in enumerate(combos(tier)):
        if len(fi) == 1 and len(gi) <= (1 if tier == "thorough" else 0):
            jobs.append((cid, si, gi, fi))
    with vc.scratch_dir("c04cli") as scratch:
        for n, (cid, si, gi, fi) in enumerate(jobs):
            if n % nshards != shard:
                continue
            sj, kinds, root = instantiate(si, gi, fi)
            src_plain = qml.render(root)
            src_warn = qml.render(root, imports=WARN_IMPORTS)
            scen_list = list(cli_scenarios())
            m = n // nshards
            for sn, (name, order, stale, outdir) in enumerate(scen_list):
                if tier != "thorough" and sn != m % len(scen_list) and name != ("bad-last" if m % 2 else "bad-middle") \
                        and not (name == "single-with-warning" and not stale and m % 3 == 0):
                    continue
                src = src_warn if name.endswith("-with-warning") else src_plain
                d = os.path.join(scratch, f"w{cid}_{sn}")
                os.makedirs(d)
                for stem in order:
                    with open(os.path.join(d, stem + ".qml"), "w") as f:
                        f.write(src if stem == "Bad" else GOOD_SRC)
                od = os.path.join(d, "out") if outdir else d
                os.makedirs(od, exist_ok=True)
                if stale:
                    for fn in ("bad.ui", "uisupport_bad.h"):
                        with open(os.path.join(od, fn), "w") as f:
                            f.write("stale " + fn + "\n")
                        os.utime(os.path.join(od, fn), (1_000_000_000, 1_000_000_000))
                before = snapshot(od)
                rc, err = run_cli(d, (["-O", "out"] if outdir else []) + [s + ".qml" for s in order])
                after = snapshot(od)
                t.inc("cli_runs")
                t.inc("cli_scenario:" + name)
                case = {"cli": name, "order": order, "stale": stale, "outdir": outdir, "combo": [si, list(gi), list(fi)],
                        "kinds": [k.name for k in kinds], "source": src, "exit": rc, "stderr": err[-600:]}
                if rc == 0:
                    t.violation(f"cli-exit-zero:{name}", case)
                if "error" not in err:
                    t.violation(f"cli-no-error-reported:{name}", case)
                for fn in ("bad.ui", "uisupport_bad.h"):
                    if before.get(fn) != after.get(fn):
                        t.violation(f"cli-output-{'modified' if fn in before else 'created'}-on-error:{name}", dict(case, file=fn))
                extra = [fn for fn in after if "bad" in fn.lower() and fn not in before and not fn.endswith(".qml")]
                if extra:
                    t.violation(f"cli-output-created-on-error:{name}", dict(case, files=extra))
                # sources listed before the faulty one are unaffected by it
                if order[0] != "Bad" and not ({"gooda.ui", "uisupport_gooda.h"} <= set(after)):
                    t.violation(f"cli-earlier-source-not-generated:{name}", case)
                import shutil
                shutil.rmtree(d, ignore_errors=True)
        # accepted documents translated again after an edit that changes only what lands in the header (or after
        # the header was deleted): both files must be the translation of the *current* source
        regen = []
        for cid, (si, gi, fi) in enumerate(combos(tier)):
            if not fi and len(gi) == 1 and (tier == "thorough" or tuple(SUBJECTS[si]) in QUICK_PAIR_SUBJECTS):
                regen.append((cid, si, gi))
        for n, (cid, si, gi) in enumerate(regen):
            if n % nshards != shard:
                continue
            sj, kinds, root = instantiate(si, gi, ())
            v1 = qml.render(root)
            v2 = v1.replace("srcS.text", "tgt.text").replace("srcI.value", "srcI.maximum").replace("srcB.checked", "srcB.enabled").replace('"H', '"HX')
            if v2 == v1:
                continue
            want = {}
            for label, text in (("v1", v1), ("v2", v2)):
                r = vd.job({"id": cid, "source": text, "modes": ["generate"], "type_name": "Doc"})["modes"]["generate"]
                want[label] = r if vc.accepted(r) else None
            if not want["v1"] or not want["v2"]:
                continue
            for scen in ("edit", "delete-header", "edit-back"):
                d = os.path.join(scratch, f"r{cid}_{scen}")
                os.makedirs(d)
                steps = {"edit": [v1, v2], "delete-header": [v1, None, v1], "edit-back": [v1, v2, v1]}[scen]
                cur = None
                ok = True
                for text in steps:
                    if text is None:
                        os.remove(os.path.join(d, "uisupport_doc.h"))
                        continue
                    cur = text
                    with open(os.path.join(d, "Doc.qml"), "w") as f:
                        f.write(text)
                    rc, err = run_cli(d, ["Doc.qml"])
                    t.inc("cli_runs")
                    if rc != 0:
                        t.violation("cli-regenerate:accepted-document-failed", {"cli": scen, "kinds": [k.name for k in kinds], "source": text, "stderr": err[-400:]})
                        ok = False
                        break
                t.inc("cli_scenario:regenerate-" + scen)
                if ok:
                    w = want["v1"] if cur == v1 else want["v2"]
                    for fn, key in (("doc.ui", "ui"), ("uisupport_doc.h", "header")):
                        path = os.path.join(d, fn)
                        if not os.path.exists(path) or open(path).read() != w[key]:
                            t.violation(f"cli-regenerate:{fn.split('.')[-1]}-is-not-the-translation-of-the-current-source:{scen}",
                                        {"cli": "regenerate", "scenario": scen, "kinds": [k.name for k in kinds], "source": cur,
                                         "previous_source": v1 if cur == v2 else v2, "file": fn, "exists": os.path.exists(path)})
                import shutil
                shutil.rmtree(d, ignore_errors=True)
    return t


# --------------------------------------------------------------------------- main

def main(tier, t0):
    vc.ensure_vdrive()
    vc.ensure_cli()
    tally = vc.merge_tallies(vc.run_sharded(shard_work, {"tier": tier}))
    tally.merge(vc.merge_tallies(vc.run_sharded(sweep_work, {"tier": tier})))
    tally.merge(vc.merge_tallies(vc.run_sharded(cli_work, {"tier": tier})))
    c = tally.counts
    kinds = {k.split(":", 1)[1]: v for k, v in c.items() if k.startswith("kind:")}
    cov = {
        "evaluations": c.get("leaves_ui_side", 0) + c.get("leaves_header_side", 0) + c.get("handler_leaves", 0) +
        c.get("fault_documents", 0) + c.get("sweep_leaves", 0) + c.get("cli_runs", 0),
        "distinct_nontrivial": len(tally.distinct),
        "rule": "an evaluation = one leaf binding looked up on one side (.ui / compiled header behaviour), one fault "
                "document judged, or one run of the real command; distinct = distinct documents",
        "exhaustive": True,
        "bound_completed": {"kinds_per_object": 3 if tier == "thorough" else 2, "faults_per_document": 1,
                            "pair_subjects": "all" if tier == "thorough" else sorted(f"{a}@{b}" for a, b in QUICK_PAIR_SUBJECTS)},
        "subjects": [f"{a}@{b}" for a, b in SUBJECTS],
        "documents": c.get("documents", 0), "accepted_documents": c.get("accepted_documents", 0),
        "fault_documents": c.get("fault_documents", 0),
        "two_subject_documents_accepted": c.get("two_subject_documents", 0),
        "fault_diagnostics_inside_binding": c.get("fault_diagnostics_inside_binding", 0),
        "programs_compiled_and_run": c.get("programs_run", 0),
        "ledger": {"ui_side": c.get("leaves_ui_side", 0), "header_side": c.get("leaves_header_side", 0),
                   "handlers": c.get("handler_leaves", 0)},
        "observed_not_judged": {"setup_calls_not_attributable": c.get("setup_calls_not_attributable_to_a_written_binding", 0),
                                "bindings_evaluated_more_than_once_in_setup": c.get("bindings_evaluated_more_than_once_in_setup", 0),
                                "handler_traces_with_more_than_the_effect": c.get("handler_traces_with_more_than_the_effect", 0)},
        "unspecified_support": {"rejected_with_diagnostic_inside": c.get("maybe_rejected", 0), "accepted_with_effect": c.get("maybe_accepted", 0)},
        "all_class_sweep": {"classes": len(sweep_classes()), "documents": c.get("sweep_documents", 0), "leaves": c.get("sweep_leaves", 0),
                            "not_instantiable": c.get("sweep_class_not_instantiable", 0)},
        "cli": {"runs": c.get("cli_runs", 0), "scenarios": {k.split(":", 1)[1]: v for k, v in c.items() if k.startswith("cli_scenario:")}},
        "kinds": kinds,
    }
    assumptions = [
        "header-side effects are observed on the Qt API model (qtmock): setter calls recorded while setup() runs with "
        "srcS.text='SRC', srcI.value=7, srcB.checked=true; re-evaluation on change is C02's subject",
        "a diagnostic range may include the binding's terminating semicolon (the grammar's binding node does)",
        "kinds whose support the documentation leaves open (dynamic model/columns/header maps/margins/attached values, "
        "dynamic members of QSize) are judged both ways: accepted => the value reaches a call; rejected => every error lies inside them",
    ]
    return vc.finish("C04", tier, LEVEL, tally, cov, assumptions, t0)


def replay(path):
    vc.ensure_vdrive()
    vc.ensure_cli()
    r = json.load(open(path))
    case = r["case"]
    t = vc.Tally()
    if case.get("cli") == "regenerate" or "scenario" in case:
        print(json.dumps({k: case[k] for k in case if k != "source"}, indent=1))
        print("re-run the check: regeneration scenarios are cheap")
        return 0
    if "cli" in case:
        si, gi, fi = case["combo"]
        with vc.scratch_dir("c04replay") as d:
            for stem in case["order"]:
                with open(os.path.join(d, stem + ".qml"), "w") as f:
                    f.write(case["source"] if stem == "Bad" else GOOD_SRC)
            od = os.path.join(d, "out") if case["outdir"] else d
            os.makedirs(od, exist_ok=True)
            if case["stale"]:
                for fn in ("bad.ui", "uisupport_bad.h"):
                    with open(os.path.join(od, fn), "w") as f:
                        f.write("stale " + fn + "\n")
            before = snapshot(od)
            rc, err = run_cli(d, (["-O", "out"] if case["outdir"] else []) + [s + ".qml" for s in case["order"]])
            after = snapshot(od)
            print("exit", rc)
            print(err)
            bad = rc == 0 or any(before.get(fn) != after.get(fn) for fn in ("bad.ui", "uisupport_bad.h"))
            if bad:
                print(f"VIOLATION property=C04 replay={path}")
                return 1
        print("replay: holds now")
        return 0
    if "sweep" in case:
        print(case["source"])
        print("re-run the check; sweep cases are cheap")
        return 0
    t = vc.merge_tallies(vc.run_sharded(shard_work, {"tier": "thorough", "only": case["combo"]}, nshards=1))
    if t.violations:
        print(f"VIOLATION property=C04 replay={path}")
        for sig, c in t.violations:
            print("  ", sig, json.dumps({k: c[k] for k in c if k in ("leaf", "expected", "calls", "hits", "mentions", "diagnostics")}))
        return 1
    print("replay: holds now")
    return 0
