"""C16  The support header is self-consistent, valid C++ over the documented Qt API.

The C++ compiler is the judge, on an API model generated from the same type information qmluic
reads (lib/qtmock.py) and a ui_*.h derived from the emitted .ui:
  * every header of the corpora (examples incl. the custom-widget project, rich documents, every
    C02 program, the C01 operator documents, C13 handler forms) is compiled alone with
    -fsyntax-only (so a missing Qt include is seen) and scanned: every member function it calls is
    defined exactly once, one BindingIndex enumerator per binding, guard and observer arrays large
    enough for every index used, <algorithm>/<QtDebug> included iff used;
  * sizing documents with n in {1, 31, 32, 33, 64, 65} bindings, colliding name prefixes, gadget
    sub-bindings, documents with observers: compiled with ASan/UBSan and run (setup() + every source
    toggled);
  * string literals: every character class (markup, quotes, backslash, %, trigraph, C0 controls,
    NUL+digit, non-BMP, combining, line separators) inside dynamic string expressions, qsTr() and
    callbacks: the compiled code must produce exactly the source string.
"""
import glob
import json
import os
import re
import shutil
import tempfile

import corpus
import harness
import qtmock
import refeval as rv
import uiread
import vcommon as vc

LEVEL = "exploration"
HEAD = ("import qmluic.QtWidgets\nQWidget {\n    id: root\n    VObj { id: a }\n    VObj { id: b0 }\n"
        "    VObj { id: c0 }\n")

FUNC_DEF_RE = re.compile(r"^    [\w:<>\*& ,]+?\s+(\w+)\(([^)]*)\)\s*$")
CALL_RE = re.compile(r"this->(\w+)\(")


def SIZES(tier):
    """Numbers of bindings around every word boundary of the guard array and in the middle of a word."""
    if tier == "thorough":
        return tuple(range(1, 131))
    return (1, 15, 16, 17, 31, 32, 33, 48, 64, 65, 80)


def scan_header(h):
    """-> list of (clause, message)"""
    probs = []
    lines = h.splitlines()
    defs = {}
    for i, l in enumerate(lines):
        m = FUNC_DEF_RE.match(l)
        if m and i + 1 < len(lines) and lines[i + 1].strip() == "{":
            defs[m.group(1)] = defs.get(m.group(1), 0) + 1
    for name, n in defs.items():
        if n > 1:
            probs.append(("function-defined-more-than-once", name))
    for name in sorted(set(CALL_RE.findall(h))):
        if defs.get(name, 0) != 1:
            probs.append(("called-function-not-defined-exactly-once", f"{name} defined {defs.get(name, 0)} times"))
    m = re.search(r"enum class BindingIndex : unsigned \{(.*?)\};", h, re.S)
    enumerators = [x.strip() for x in m.group(1).split(",") if x.strip()] if m else []
    if len(set(enumerators)) != len(enumerators):
        probs.append(("duplicate-binding-index", str(sorted(x for x in enumerators if enumerators.count(x) > 1))))
    updates = [n for n in defs if n.startswith("update")]
    if len(enumerators) != len(updates):
        probs.append(("binding-index-count", f"{len(enumerators)} enumerators for {len(updates)} update functions"))
    for n in updates:
        if n[len("update"):] not in enumerators:
            probs.append(("binding-without-index", n))
    g = re.search(r"quint32 bindingGuard_\[(\d+)\]", h)
    need = (len(enumerators) + 31) // 32
    if enumerators and (g is None or int(g.group(1)) < need):
        probs.append(("guard-array-too-small", f"{g.group(1) if g else 0} words for {len(enumerators)} bindings"))
    # observer arrays
    sizes = {name: int(n) for name, n in re.findall(r"PropertyObserver (\w+)\[(\d+)\];", h)}
    for fm in re.finditer(r"auto &observed = (\w+);(.*?)\n    \}", h, re.S):
        name, body = fm.group(1), fm.group(2)
        used = [int(x) for x in re.findall(r"observed\[(\d+)\]", body)]
        if name not in sizes:
            probs.append(("observer-array-not-declared", name))
        elif used and max(used) >= sizes[name]:
            probs.append(("observer-array-too-small", f"{name}[{sizes[name]}] index {max(used)}"))
    # a facility that is used must be included (an unused include is not a violation)
    uses_minmax = re.search(r"\bstd::(min|max)\s*(<[^>()]*>)?\(", h) is not None
    if uses_minmax and "#include <algorithm>" not in h:
        probs.append(("include:algorithm", "used"))
    if re.search(r"\bstd::fmod\(", h) is not None and "#include <cmath>" not in h:
        probs.append(("include:cmath", "used"))
    uses_dbg = re.search(r"\b(qDebug|qInfo|qWarning|qCritical)\(\)", h) is not None
    if uses_dbg and "#include <QtDebug>" not in h:
        probs.append(("include:QtDebug", "used"))
    return probs, len(enumerators)


def syntax_check(ui_text, header, type_name, lowercase=True):
    """Compiles the header alone (with its ui_*.h and the class declarations). -> error text or None"""
    base = os.environ.get("VERIF_SCRATCH", tempfile.gettempdir())
    d = tempfile.mkdtemp(prefix="verif-c16-", dir=base)
    try:
        ui = uiread.parse(ui_text)
        gen = qtmock.Gen(header)
        names, _c = qtmock.classes_in_ui(ui)
        decl = gen.declarations(names + qtmock.classes_in_header(header, gen.types))
        uih, _m, _rc, _rn = qtmock.ui_header(ui, type_name)
        low = type_name.lower() if lowercase else type_name        # the file name rule uic / qt_wrap_ui follow
        with open(os.path.join(d, "decl.h"), "w") as f:
            f.write("#pragma once\n" + decl)
        with open(os.path.join(d, f"ui_{low}.h"), "w") as f:
            f.write('#include "decl.h"\n' + uih)
        with open(os.path.join(d, f"uisupport_{low}.h"), "w") as f:
            f.write(header)
        with open(os.path.join(d, "tu.cpp"), "w") as f:
            f.write(f'#include "uisupport_{low}.h"\nint main() {{ return 0; }}\n')
        rc, log = harness.compile_tu(d, os.path.join(d, "tu.cpp"), syntax_only=True)
        return None if rc == 0 else log[-1500:]
    finally:
        shutil.rmtree(d, ignore_errors=True)


# --------------------------------------------------------------------------- corpus

def sizing_doc(n, observers=False):
    body = ["    QSpinBox { id: s }\n", "    QSpinBox { id: s2 }\n", "    QCheckBox { id: cb }\n"]
    for i in range(n):
        if observers:
            body.append(f"    QLabel {{ id: l{i}; enabled: (cb.checked ? s : s2).value > {i} }}\n")
        else:
            body.append(f"    QLabel {{ id: l{i}; enabled: s.value > {i} }}\n")
    return "import qmluic.QtWidgets\nQWidget {\n    id: root\n" + "".join(body) + "}\n"


COLLISION_DOCS = [
    ("three-way-prefix", "import qmluic.QtWidgets\nQWidget {\n    id: foo\n    QLineEdit { id: src }\n"
     "    windowIconText: src.text\n    QAction { id: fooWindow; iconText: src.text }\n"
     "    QLabel { id: fooWindowIcon; text: src.text }\n}\n"),
    ("prefix-vs-suffixed-name", "import qmluic.QtWidgets\nQWidget {\n    id: root\n    QLineEdit { id: src }\n"
     "    QLabel { id: lab; text: src.text; toolTip: src.text }\n    QLabel { id: labT; text: src.text }\n"
     "    QLabel { id: labTex; toolTip: src.text }\n}\n"),
    ("binding-and-callback-same-prefix", "import qmluic.QtWidgets\nQWidget {\n    id: root\n    QLineEdit { id: src }\n"
     "    QLabel { id: lab; windowTitle: src.text; onWindowTitleChanged: src.clear() }\n}\n"),
    ("gadget-member-vs-property", "import qmluic.QtWidgets\nQWidget {\n    id: root\n    QSpinBox { id: s }\n    QCheckBox { id: cb }\n"
     "    QLabel { id: lab; font.pointSize: s.value; font.bold: cb.checked; font.italic: !cb.checked }\n"
     "    QLabel { id: labFont; font.pointSize: s.value + 1 }\n}\n"),
    ("math-in-gadget-member-only", "import qmluic.QtWidgets\nQWidget {\n    id: root\n    QSpinBox { id: s }\n"
     "    QLabel { font.pointSize: Math.max(s.value, 1) }\n}\n"),
    ("log-in-callback-only", "import qmluic.QtWidgets\nQWidget {\n    id: root\n    QPushButton { onClicked: console.log(\"x\") }\n}\n"),
    ("min-in-callback-only", "import qmluic.QtWidgets\nQWidget {\n    id: root\n    QSpinBox { id: s; onValueChanged: function(v: int) { s.maximum = Math.min(v, 5) } }\n}\n"),
    ("no-dynamic-code-at-all", "import qmluic.QtWidgets\nQWidget {\n    id: root\n    QLabel { text: \"x\" }\n}\n"),
]

# one facility, one use, one document: every console level, Math.min / max and % on doubles, in a callback and in a binding
for _f, _stmt in (("log", 'console.log("x")'), ("debug", 'console.debug("x")'), ("info", 'console.info("x")'), ("warn", 'console.warn("x")'),
                  ("error", 'console.error("x")'), ("max", "s.maximum = Math.max(s.value, 5)"), ("min", "s.maximum = Math.min(s.value, 5)"),
                  ("fmod", "d.maximum = d.value % 2.0")):
    COLLISION_DOCS.append((f"only-{_f}-in-a-callback", "import qmluic.QtWidgets\nQWidget {\n    id: root\n    QSpinBox { id: s }\n    QDoubleSpinBox { id: d }\n"
                           f"    QPushButton {{ onClicked: {{ {_stmt} }} }}\n}}\n"))
    COLLISION_DOCS.append((f"only-{_f}-in-a-binding", "import qmluic.QtWidgets\nQWidget {\n    id: root\n    QSpinBox { id: s }\n    QDoubleSpinBox { id: d }\n"
                           f"    QLabel {{ text: {{ {_stmt}; return s.text; }} }}\n}}\n" if _f in ("log", "debug", "info", "warn", "error") else
                           "import qmluic.QtWidgets\nQWidget {\n    id: root\n    QSpinBox { id: s }\n    QDoubleSpinBox { id: d }\n"
                           + {"max": "    QSpinBox { minimum: Math.max(s.value, 5) }\n", "min": "    QSpinBox { minimum: Math.min(s.value, 5) }\n",
                              "fmod": "    QDoubleSpinBox { minimum: d.value % 2.0 }\n"}[_f] + "}\n"))

STRING_CHARS = ["<", ">", "&", '"', "'", "\\", "%", "%1", "?", "??/", "??=", " ", "\t", "\n", "\r", "\x01", "\x07", "\x1b", "\x7f",
                "\x00" + "7", "\x00", "é", "\u0301", "\u0085", " ", "\U0001F600", "a", "*/", "//", "R\"(", "\\n", "\\x41"]


def string_docs():
    """(doc id, source, [(sink object, expected string)]) - 12 literals per document and context"""
    ctxs = [("concat", "VObj {{ id: t{i}; rs: a.s + {lit} }}"), ("qsTr-dynamic", "VObj {{ id: t{i}; rs: a.b ? \"\" : qsTr({lit}) }}"),
            ("ternary-literal", "VObj {{ id: t{i}; rs: a.b ? a.s : {lit} }}")]
    strs = []
    for c in STRING_CHARS:
        strs += [c, "x" + c, c + "y"]
    seen = []
    for s in strs:
        if s not in seen:
            seen.append(s)
    for cname, tmpl in ctxs:
        # QCoreApplication::translate() takes const char *: a NUL cannot be carried through qsTr()
        use = [x for x in seen if not (cname.startswith("qsTr") and "\x00" in x)]
        for j in range(0, len(use), 12):
            chunk = use[j:j + 12]
            body = "".join("    " + tmpl.format(i=i, lit=js_lit(s)) + "\n" for i, s in enumerate(chunk))
            yield (f"str/{cname}/{j}", HEAD + body + "}\n", [(f"t{i}", s) for i, s in enumerate(chunk)], cname)
    # the same for every escape *spelling* (decoded by lib/literals.py), in a binding and in a callback
    import literals
    spellings = ["\\b", "\\f", "\\n", "\\r", "\\t", "\\v", "\\0", "\\'", '\\"', "\\\\", "\\x41", "\\x7f", "\\x1b", "\\xe9",
                 "\\u0041", "\\u00e9", "\\u2028", "\\u{41}", "\\u{1F600}", "x\\by", "\\b\\b"]        # spellings qmluic refuses (surrogate halves, \\/) are C01/C03's
    pairs = [(sp, literals.js_string_body(sp)) for sp in spellings]
    pairs = [(sp, v) for sp, v in pairs if v is not None and "\x00" not in v]
    for cname, tmpl in (("spelling-binding", "VObj {{ id: t{i}; rs: a.s + \"{sp}\" }}"),
                        ("spelling-callback", "VObj {{ id: t{i}; onFired: rs = '{sp}' }}")):
        for j in range(0, len(pairs), 12):
            chunk = pairs[j:j + 12]
            body = "".join("    " + tmpl.format(i=i, sp=sp) + "\n" for i, (sp, _v) in enumerate(chunk))
            yield (f"str/{cname}/{j}", HEAD + body + "}\n", [(f"t{i}", v) for i, (_sp, v) in enumerate(chunk)], cname)


def js_lit(s):
    out = []
    for ch in s:
        o = ord(ch)
        if ch in '"\\':
            out.append("\\" + ch)
        elif ch == "\n":
            out.append("\\n")
        elif ch == "\r":
            out.append("\\r")
        elif ch == "\t":
            out.append("\\t")
        elif o < 0x20 or o == 0x7f:
            out.append("\\x%02x" % o)
        elif o in (0x2028, 0x2029):
            out.append("\\u%04x" % o)
        else:
            out.append(ch)
    return '"' + "".join(out) + '"'


def char_class(s, got):
    for ch in s:
        o = ord(ch)
        if o == 0:
            return "NUL"
        if o < 0x20 or o == 0x7f:
            return "C0-control"
    for ch in s:
        o = ord(ch)
        if o > 0xffff:
            return "non-BMP"
        if o in (0x2028, 0x85):
            return "line-separator"
        if o >= 0x80:
            return "non-ASCII"
    if "??" in s:
        return "trigraph"
    for ch in '"\\%\'':
        if ch in s:
            return {"\"": "double-quote", "\\": "backslash", "%": "percent", "'": "single-quote"}[ch]
    return "plain"


def text_corpus(tier):
    """(id, job dict) for documents judged by scan + syntax-only compile."""
    for p in sorted(glob.glob(os.path.join(vc.REPO, "examples", "*.qml"))):
        yield ("example/" + os.path.basename(p), {"path": p})
    for p in sorted(glob.glob(os.path.join(vc.REPO, "examples", "customwidget", "**", "*.qml"), recursive=True)):
        yield ("example/customwidget/" + os.path.basename(p), {"path": p})
    from checks import c08, c02, c01, c13
    for n, t in c08.RICH:
        yield (n, {"source": t})
    for n, t in corpus.GENERATED_SEEDS:
        yield (n, {"source": t})
    for n, t in COLLISION_DOCS:
        yield ("collision/" + n, {"source": t})
    for prog in c02.programs(tier):
        yield ("c02/" + prog["name"], {"source": prog["source"]})
    stride = 1 if tier == "thorough" else 4
    for k, (cid, src, _s) in enumerate(c01.l1_documents(tier)):
        if k % stride == 0:
            yield ("c01/" + cid, {"source": src})
    for k, case in enumerate(c13.h2_cases()):
        yield ("c13/" + case[0], {"source": c13.HEAD + f"    VObj {{\n        id: t\n        {case[1]}: {case[2]}\n    }}\n}}\n"})
    for n in SIZES(tier):
        yield (f"sizing/{n}", {"source": sizing_doc(n)})
        if n in (1, 33):
            yield (f"sizing-observers/{n}", {"source": sizing_doc(n, True)})


def file_name_rule_docs(t, vd):
    """Both file name rules (lower-case and original case): the header includes the ui header uic writes."""
    src = "import qmluic.QtWidgets\nQWidget {\n    QCheckBox { id: c }\n    QLabel { visible: c.checked; onLinkActivated: console.log(1) }\n}\n"
    for name in ("MainDialog", "X", "mixedCase_1", "lower", "ALLCAPS"):
        for lowercase in (True, False):
            r = vd.job({"id": name, "source": src, "modes": ["generate"], "type_name": name, "lowercase": lowercase})
            g = r["modes"]["generate"]
            t.inc("file_name_rule_documents")
            case = {"id": f"file-name-rule/{name}/{lowercase}", "source": src, "type_name": name, "lowercase": lowercase}
            want = "ui_" + (name.lower() if lowercase else name) + ".h"
            incs = re.findall(r'#include "([^"]+)"', g["header"])
            if incs != [want]:
                t.violation("include:ui-header-name-does-not-follow-the-file-name-rule", dict(case, expected=want, includes=incs))
                continue
            err = syntax_check(g["ui"], g["header"], name, lowercase)
            t.inc("headers_compiled")
            t.distinct.add(case["id"])
            if err:
                t.violation("compile:" + classify_compile_error(err), dict(case, error=err[-700:]))


def shard_text(shard, nshards, payload):
    vd = vc.worker_vdrive()
    t = vc.Tally()
    if shard == 0:
        file_name_rule_docs(t, vd)
    for k, (cid, job) in enumerate(text_corpus(payload["tier"])):
        if k % nshards != shard:
            continue
        tn = "T" + re.sub(r"\W", "", cid.split("/")[-1].split(".")[0])[:20] if "path" not in job else None
        j = dict(job, id=cid, modes=["generate"])
        if tn:
            j["type_name"] = tn
        r = vd.job(j)
        if r.get("crashed") or r.get("timeout") or "modes" not in r or r["modes"]["generate"].get("status") == "panic":
            t.lost.append({"id": cid})
            continue
        g = r["modes"]["generate"]
        t.inc("documents")
        if not vc.accepted(g, r.get("has_syntax_error")):
            t.inc("documents_rejected")
            continue
        type_name = tn or os.path.splitext(os.path.basename(job["path"]))[0]
        src = job.get("source") or open(job["path"]).read()
        case = {"id": cid, "source": src}
        probs, nbind = scan_header(g["header"])
        t.inc("headers_scanned")
        t.inc("bindings", nbind)
        for clause, msg in probs:
            t.violation(f"scan:{clause}", dict(case, problem=msg))
        err = syntax_check(g["ui"], g["header"], type_name)
        t.inc("headers_compiled")
        t.distinct.add(cid)
        if err:
            t.violation("compile:" + classify_compile_error(err), dict(case, error=err[-700:]))
        if k % 37 == 0:
            t.sample({"id": cid, "bindings": nbind})
    return t


def classify_compile_error(err):
    if "no match for ‘operator%’" in err or "invalid operands of types ‘double’" in err:
        return "double-modulo"
    if "ordered comparison of pointer with integer zero" in err:
        return "ordered-comparison-with-nullptr"
    if "no matching function for call to ‘max(" in err or "no matching function for call to ‘min(" in err:
        return "std-min-max-mixed-signedness"
    if "redeclaration" in err or "cannot be overloaded" in err or "redefinition" in err:
        return "duplicate-definition"
    if "was not declared in this scope" in err or "is not a member of" in err or "has no member named" in err:
        return "undeclared-name"
    if "universal character" in err or "unknown escape" in err or "not valid in" in err or "stray" in err or "incomplete universal" in err:
        return "string-literal-escape"
    return "other"


# --------------------------------------------------------------------------- executed part

def exec_programs(tier, t):
    """Sizing / collision documents run under ASan+UBSan; string documents run and compared."""
    vd = vc.VDrive()
    progs_ = []
    k = 0
    for n in SIZES(tier):
        for obs in (False, True):
            if obs and n not in (1, 32, 33) and tier == "quick":
                continue
            if tier == "thorough" and n % 8 not in (0, 1, 7) and n > 2:
                continue        # executed under sanitizers: around every byte boundary; all sizes are compiled and scanned
            k += 1
            src = sizing_doc(n, obs)
            pid = f"Z{k}"
            g = vd.job({"id": pid, "source": src, "modes": ["generate"], "type_name": pid})["modes"]["generate"]
            driver = """    auto body = [&]() {
        @SETUP@
        UiSupport::@PID@ sup(root, ui); sup.setup();
        for (int v = 0; v < 70; v += 7) { s->setValue(v); s2->setValue(70 - v); cb->setChecked(v %% 2 == 0); }
        int enabled = 0;
        %s
        emit("@PID@", "final", std::to_string(enabled));
    };
    VERIF_GUARD("@PID@", "final!", body());""" % " ".join(f"enabled += l{i}->isEnabled() ? 1 : 0;" for i in range(n))
            # last iteration: v=63 -> s=63, s2=7, cb unchecked (63 % 2 == 1) -> source is s2 (7) when observers
            val = 7 if obs else 63
            want = sum(1 for i in range(n) if val > i)
            progs_.append(harness.Program(pid, g["ui"], g["header"], driver, {"kind": "sizing", "n": n, "observers": obs,
                                                                              "source": src, "expected": str(want)}))
    for name, src in COLLISION_DOCS[:4]:
        k += 1
        pid = f"Z{k}"
        g = vd.job({"id": pid, "source": src, "modes": ["generate"], "type_name": pid})["modes"]["generate"]
        if not vc.accepted(g):
            continue
        driver = """    auto body = [&]() {
        @SETUP@
        UiSupport::@PID@ sup(root, ui); sup.setup();
        emit("@PID@", "final", "ok");
    };
    VERIF_GUARD("@PID@", "final!", body());"""
        progs_.append(harness.Program(pid, g["ui"], g["header"], driver, {"kind": "collision", "name": name, "source": src,
                                                                          "expected": "ok"}))
    # the sanitizer builds are slow and independent: four translation units side by side
    import concurrent.futures
    res = {}
    with concurrent.futures.ThreadPoolExecutor(4) as ex:
        for part in ex.map(lambda ch: harness.run_batch(ch, tag="c16san", sanitize=True), [progs_[i::4] for i in range(4)]):
            res.update(part)
    for p in progs_:
        r = res[p.pid]
        m = p.meta
        t.inc("executed_programs")
        case = {"id": m.get("name") or f"sizing/{m.get('n')}", "source": m["source"]}
        if r["compile_error"]:
            t.violation("compile:" + classify_compile_error(r["compile_error"]), dict(case, error=r["compile_error"][-600:]))
            continue
        if r["crash"]:
            what = "sanitizer:" + ("out-of-bounds" if "overflow" in r["crash"] or "out of bounds" in r["crash"] else "error")
            t.violation(what, dict(case, report=r["crash"][-800:]))
            continue
        got = dict(r["lines"])
        if "final!" in got:
            t.violation("exception:" + got["final!"].split(":")[0], dict(case, what=got["final!"]))
        elif got.get("final") != m["expected"]:
            t.violation("executed:wrong-result", dict(case, expected=m["expected"], observed=got.get("final")))
        t.distinct.add(("exec", case["id"], m.get("observers")))
    # strings
    sprogs = []
    for cid, src, sinks, cname in string_docs():
        k += 1
        pid = f"S{k}"
        r = vd.job({"id": pid, "source": src, "modes": ["generate"], "type_name": pid})
        g = r["modes"]["generate"]
        if not vc.accepted(g, r.get("has_syntax_error")):
            t.violation("strings:document-rejected", {"id": cid, "source": src, "diagnostics": g.get("diagnostics")})
            continue
        fire = " ".join(f"{o}->fired();" for o, _s in sinks) if cname.endswith("callback") else ""
        prints = fire + " " + " ".join(f'emit("@PID@", "{o}", {o}->rs().hex());' for o, _s in sinks)
        driver = """    auto body = [&]() {
        @SETUP@
        UiSupport::@PID@ sup(root, ui); sup.setup();
        %s
    };
    VERIF_GUARD("@PID@", "!", body());""" % prints
        sprogs.append(harness.Program(pid, g["ui"], g["header"], driver, {"cid": cid, "source": src, "sinks": sinks, "ctx": cname}))
    res = run_string_programs(sprogs, vd, t)
    vd.close()


def run_string_programs(sprogs, vd, t):
    res = harness.run_batch(sprogs, tag="c16str")
    for p in sprogs:
        r = res[p.pid]
        m = p.meta
        if r["compile_error"]:
            # isolate the literals that do not compile: one document per literal
            for o, s in m["sinks"]:
                one = [(o2, s2) for (o2, s2) in m["sinks"] if o2 == o]
                line = [l for l in m["source"].splitlines() if f"id: {o};" in l][0]
                src1 = HEAD + line + "\n}\n"
                pid1 = p.pid + o
                g = vd.job({"id": pid1, "source": src1, "modes": ["generate"], "type_name": pid1})["modes"]["generate"]
                if not vc.accepted(g):
                    continue
                err = syntax_check(g["ui"], g["header"], pid1)
                t.inc("string_literals")
                t.distinct.add(("str", m["ctx"], s))
                if err:
                    t.violation(f"string-literal:does-not-compile:{char_class(s, None)}",
                                {"id": m["cid"], "string": s, "context": m["ctx"], "source": src1, "error": err[-500:]})
            continue
        got = dict(r["lines"])
        for o, s in m["sinks"]:
            t.inc("string_literals")
            t.distinct.add(("str", m["ctx"], s))
            want = "".join("%04x" % u for u in rv.utf16(s))
            if got.get(o) != want:
                line = [l for l in m["source"].splitlines() if f"id: {o};" in l][0]
                t.violation(f"string-literal:wrong-value:{char_class(s, got.get(o))}",
                            {"id": m["cid"], "string": s, "context": m["ctx"], "expected_utf16": want, "observed_utf16": got.get(o),
                             "source": HEAD + line + "\n}\n"})
    return res


def unspecified_but_accepted(shard, nshards, payload):
    """Typing cells the documentation does not settle (lib/reftypes.py verdict 'unspec'): whatever
    qmluic decides, an *accepted* program must yield a header that compiles."""
    import itertools
    import reftypes as rt
    from checks import c05
    vd = vc.worker_vdrive()
    t = vc.Tally()
    leaves = list(rt.all_leaves())
    exprs = []
    for op in rt.UNOPS:
        for l in leaves:
            exprs.append(("un", op, l))
    for op in rt.BINOPS:
        for l, r in itertools.product(leaves, repeat=2):
            exprs.append(("bin", op, l, r))
    for l in leaves:
        for target in rt.CAST_TARGETS:
            exprs.append(("as", l, target))
    for f in ("Math.max", "Math.min"):
        for l, r in itertools.product(leaves, repeat=2):
            exprs.append(("raw", f"{f}({l[2]}, {r[2]})"))
    todo = []
    for k, e in enumerate(exprs):
        if k % nshards != shard:
            continue
        if e[0] == "raw":
            text = e[1]
        else:
            if rt.typeof(e)[0] != rt.UNS:
                continue
            text = rt.show(e)
        src = c05.in_handler(text + ";")
        r = vd.job({"id": k, "source": src, "modes": ["generate"], "type_name": f"U{k}"})
        if "modes" not in r or r["modes"]["generate"].get("status") == "panic":
            continue
        g = r["modes"]["generate"]
        if vc.accepted(g, r.get("has_syntax_error")):
            todo.append((k, text, src, g))
    progs_ = [harness.Program(f"U{k}", g["ui"], g["header"],
                              "    @SETUP@\n    UiSupport::@PID@ sup(root, ui); (void)sup;",
                              {"k": k, "text": text, "source": src}) for k, text, src, g in todo]
    for i in range(0, len(progs_), 30):
        chunk = progs_[i:i + 30]
        errs = harness.compile_batch(chunk, tag="c16u")
        for p in chunk:
            t.inc("unspecified_accepted_compiled")
            t.distinct.add(("uns", p.meta["text"]))
            err = errs[p.pid]
            if err:
                t.violation("compile:accepted-but-does-not-compile:" + classify_compile_error(err),
                            {"id": f"unspec/{p.meta['k']}", "expr": p.meta["text"], "source": p.meta["source"], "error": err[-500:]})
    return t


# --------------------------------------------------------------------------- API sweep

def api_sweep_docs():
    """Every NOTIFY property (read in a binding, so that its change signal is connected) and every
    signal (as a callback) of every widget class, QAction and the layouts, as the type
    information declares them: the way a signal is named in the header (QOverload<...>::of(&C::s))
    must compile against declarations made from the same type information."""
    from checks import c04
    types = qtmock.load_types()
    classes = c04.sweep_classes() + ["QAction", "QVBoxLayout", "QGridLayout", "QFormLayout", "QButtonGroup", "VObj"]
    head = "import qmluic.QtWidgets\nQWidget {\n    id: root\n"
    for cls in classes:
        c = types.get(cls)
        if not c:
            continue

        def place(body_src, body_dst=None):
            objs = f"    {cls} {{ id: src{body_src} }}\n"
            if body_dst is not None:
                objs += f"    {cls} {{ id: dst; {body_dst} }}\n"
            if cls.endswith("Layout"):
                objs = "".join(f"    QWidget {{ {l.strip()} }}\n" for l in objs.splitlines())
            return head + objs
        for p_ in c.get("properties", []):
            if not (p_.get("notify") and p_.get("read")):
                continue
            n = p_["name"]
            if p_.get("write"):
                yield (f"api/{cls}.{n}/copy", place("", f"{n}: src.{n}") + "}\n")
            yield (f"api/{cls}.{n}/compare", place("") + f"    VObj {{ id: t; rb: src.{n} == src.{n} }}\n}}\n")
        seen = set()
        for sg in c.get("signals", []):
            if sg["name"] in seen:
                continue
            seen.add(sg["name"])
            on = "on" + sg["name"][0].upper() + sg["name"][1:]
            yield (f"api/{cls}::{sg['name']}/callback", place(f"; {on}: {{ }}") + "}\n")
        # members the type information declares protected or private cannot be named from the support class: a call of
        # one, in a callback or in a binding, must not be accepted
        seen = set()
        for m_ in c.get("slots", []) + c.get("methods", []):
            if m_.get("access", "public") == "public" or m_["name"] in seen or m_.get("arguments"):
                continue
            if any(o["name"] == m_["name"] and o.get("access", "public") == "public" for o in c.get("slots", []) + c.get("methods", [])):
                continue        # a public overload of the same name exists
            seen.add(m_["name"])
            yield (f"nonpublic/{cls}::{m_['name']}/callback", place("") + f"    QPushButton {{ onClicked: src.{m_['name']}() }}\n}}\n")
            if m_.get("returnType", "void") in ("int", "bool", "QString"):
                yield (f"nonpublic/{cls}::{m_['name']}/binding", place("") + f"    VObj {{ id: t; rb: src.{m_['name']}() == src.{m_['name']}() }}\n}}\n")


def api_sweep(shard, nshards, payload):
    vd = vc.worker_vdrive()
    t = vc.Tally()
    progs_ = []
    for k, (cid, src) in enumerate(api_sweep_docs()):
        if k % nshards != shard:
            continue
        r = vd.job({"id": cid, "source": src, "modes": ["generate"], "type_name": f"A{k}"})
        if "modes" not in r or r["modes"]["generate"].get("status") == "panic":
            t.lost.append({"id": cid})
            continue
        g = r["modes"]["generate"]
        t.inc("api_sweep_documents")
        if cid.startswith("nonpublic/"):
            t.inc("api_sweep_nonpublic_members")
            t.distinct.add(cid)
            if vc.accepted(g, r.get("has_syntax_error")):
                t.violation("accepted-a-call-of-a-non-public-member", {"id": cid, "source": src})
            continue
        if not vc.accepted(g, r.get("has_syntax_error")):
            t.inc("api_sweep_rejected")       # ambiguous overloads, incomparable gadgets, ...: nothing to compile
            continue
        if "QObject::connect(" not in g["header"]:
            t.inc("api_sweep_without_connection")
            continue
        progs_.append(harness.Program(f"A{k}", g["ui"], g["header"], "    @SETUP@\n    UiSupport::@PID@ sup(root, ui); (void)sup;",
                                      {"id": cid, "source": src}))
    for i in range(0, len(progs_), 25):
        chunk = progs_[i:i + 25]
        errs = harness.compile_batch(chunk, tag="c16a")
        for p in chunk:
            t.inc("api_sweep_compiled")
            t.distinct.add(p.meta["id"])
            if errs[p.pid]:
                t.violation("compile:api-sweep:" + classify_compile_error(errs[p.pid]),
                            {"id": p.meta["id"], "source": p.meta["source"], "error": errs[p.pid][-700:]})
    return t


def main(tier, t0):
    vc.ensure_vdrive()
    qtmock.load_types()
    # the sanitizer builds are few but slow: they run beside the sharded phases
    import multiprocessing
    import traceback
    ctx = multiprocessing.get_context("fork")
    q = ctx.Queue()

    def _exec():
        try:
            te = vc.Tally()
            exec_programs(tier, te)
            q.put(("ok", te))
        except BaseException:
            q.put(("err", traceback.format_exc()))
    pr = ctx.Process(target=_exec)
    pr.start()
    tally = vc.merge_tallies(vc.run_sharded(shard_text, {"tier": tier}))
    tally.merge(vc.merge_tallies(vc.run_sharded(unspecified_but_accepted, {"tier": tier})))
    tally.merge(vc.merge_tallies(vc.run_sharded(api_sweep, {"tier": tier})))
    from checks import c02
    vc.ensure_cli()
    c02.shipped_header_is_current(tally)      # the header a user compiles is the file on disk after a regeneration
    kind, te = q.get(timeout=3000)
    pr.join()
    if kind != "ok":
        raise vc.MachineryError("executed part failed:\n" + te)
    tally.merge(te)
    c = tally.counts
    cov = {
        "evaluations": c.get("headers_compiled", 0) + c.get("executed_programs", 0) + c.get("string_literals", 0) +
        c.get("unspecified_accepted_compiled", 0) + c.get("api_sweep_compiled", 0),
        "distinct_nontrivial": len(tally.distinct),
        "rule": "distinct documents whose header was compiled alone against the generated API model, distinct "
                "executed sizing/collision programs, distinct (context, string) literal cases",
        "exhaustive": True,
        "headers_scanned": c.get("headers_scanned", 0), "headers_compiled": c.get("headers_compiled", 0),
        "bindings_in_scanned_headers": c.get("bindings", 0),
        "documents_rejected": c.get("documents_rejected", 0),
        "executed_under_sanitizers": c.get("executed_programs", 0),
        "string_literals_checked": c.get("string_literals", 0),
        "unspecified_typing_cells_accepted_and_compiled": c.get("unspecified_accepted_compiled", 0),
        "api_sweep": {"documents": c.get("api_sweep_documents", 0), "compiled": c.get("api_sweep_compiled", 0),
                      "rejected_by_qmluic": c.get("api_sweep_rejected", 0), "without_connection": c.get("api_sweep_without_connection", 0)},
    }
    assumptions = [
        "API model generated from `vdrive types` (bundled metatypes + vtypes.json after metatype_tweak); enum / "
        "QFlags operator typing is lenient, so Qt-version-specific QFlags compile failures are outside this check",
        "default-argument pairs of the metatypes are one C++ function with default arguments (Qt convention)",
        "<algorithm> is judged textually (the model's own core header includes it); <QtDebug> is judged by the compiler",
    ]
    return vc.finish("C16", tier, LEVEL, tally, cov, assumptions, t0)


def replay(path):
    vc.ensure_vdrive()
    qtmock.load_types()
    r = json.load(open(path))
    c = r["case"]
    vd = vc.VDrive()
    g = vd.job({"id": 0, "source": c["source"], "modes": ["generate"], "type_name": "Replay"})["modes"]["generate"]
    vd.close()
    if not vc.accepted(g):
        print("document is rejected now:", g.get("diagnostics"))
        return 0
    probs, _n = scan_header(g["header"])
    err = syntax_check(g["ui"], g["header"], "Replay")
    print("scan:", probs)
    print("compile:", err)
    if probs or err:
        print(f"VIOLATION property=C16 replay={path}")
        return 1
    if "string" in c:
        print("(string value cases are re-judged by the full check)")
        print(f"VIOLATION property=C16 replay={path}")
        return 1
    print("replay: holds now")
    return 0
