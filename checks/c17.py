"""C17  Type lookups agree with the class graph and always terminate.

Exhaustive enumeration (inside vdrive, on the real typemap code) of every class graph with N
classes whose ordered super lists are any sequence of length <= 2 over {C0..C(N-1), Missing,
an enum}, times every placement of the declarations {p, m, E} on a subset of the classes;
every lookup is compared with plain reachability computed by the harness.
"""
import json
import subprocess
import time

import vcommon as vc

LEVEL = "exploration"


def run_engine(n, stall=20, timeout=3600, alphabet="dangling", max_supers=2):
    cmd = [vc.VDRIVE_BIN, "typemap", "--n", str(n), "--threads", str(vc.NPROC),
           "--stall-secs", str(stall), "--alphabet", alphabet, "--max-supers", str(max_supers)]
    try:
        p = subprocess.run(cmd, stdout=subprocess.PIPE, stderr=subprocess.PIPE, text=True,
                           timeout=timeout)
    except subprocess.TimeoutExpired:
        raise vc.MachineryError("typemap engine exceeded its wall clock cap")
    lines = [l for l in p.stdout.splitlines() if l.strip()]
    if not lines:
        if p.returncode < 0 or p.returncode in (134, 139):
            # the code under test brought the engine down (stack exhaustion / abort inside a lookup)
            return {"crash": True, "returncode": p.returncode, "stderr_tail": p.stderr[-400:]}, p
        raise vc.MachineryError(f"typemap engine produced no output (rc={p.returncode}): {p.stderr[-2000:]}")
    return json.loads(lines[-1]), p


def main(tier, t0):
    vc.ensure_vdrive()
    sizes = [2, 3] if tier == "quick" else [2, 3, 4]
    tally = vc.Tally()
    per_n = {}
    total_cases = 0
    total_queries = 0
    samples = []
    exhaustive = True
    # (N, alphabet, supers per class): the first alphabet has unresolvable and non-class supers, the second
    # marks every edge public, protected or private (only public edges belong to the class graph)
    runs = [(n, "dangling", 2) for n in sizes] + \
        ([(2, "access", 2), (3, "access", 1)] if tier == "quick" else [(2, "access", 2), (3, "access", 2)]) + \
        [(2, "modules", 2), (3, "modules", 2)]
    for n, alphabet, ms in runs:
        out, p = run_engine(n, alphabet=alphabet, max_supers=ms)
        label = str(n) if alphabet == "dangling" else f"{n}/{alphabet}/supers<={ms}"
        if out.get("crash"):
            what = "stack-overflow" if "overflowed its stack" in out["stderr_tail"] else f"rc={out['returncode']}"
            tally.violation(f"crash:lookup-brought-the-process-down:{what}",
                            {"n": n, "returncode": out["returncode"], "stderr_tail": out["stderr_tail"]})
            per_n[label] = {"crash": True}
            exhaustive = False
            continue
        if out.get("hang"):
            tally.violation("hang:lookup-does-not-terminate", {"n": n, "witness": out["witness"]})
            per_n[label] = {"hang": True}
            exhaustive = False
            continue
        if out.get("crashed_threads"):
            # a panic inside a lookup: report as violation with the stderr tail as witness
            tally.violation("panic:lookup-panicked", {"n": n, "stderr": p.stderr[-1500:]})
            exhaustive = False
        per_n[label] = {k: out[k] for k in ("graphs", "graphs_total", "cases", "queries",
                                               "cyclic_graphs", "dangling_graphs",
                                               "multi_super_graphs", "super_lists", "outcomes")}
        if out["graphs"] != out["graphs_total"]:
            exhaustive = False
        total_cases += out["cases"]
        total_queries += out["queries"]
        samples += out["samples"][:2]
        for v in out["violations"]:
            tally.viol_counts[v["signature"]] = tally.viol_counts.get(v["signature"], 0) + v["count"] - 1
            tally.violation(v["signature"], {"n": n, "alphabet": alphabet, "max_supers": ms, "witness": v["witness"], "count": v["count"]})
    outcomes = set()
    for d in per_n.values():
        outcomes |= set(d.get("outcomes", {}).keys())
    cov = {
        "evaluations": total_queries,
        "distinct_nontrivial": total_cases,
        "rule": "every (graph, declaration placement) pair is a distinct case; graphs = all ordered "
                "super lists of length<=2 over {C0..C(N-1), Missing, En}^N, over {public, protected, "
                "private} x {C0..C(N-1)}, and over classes living in one module each x every import relation "
                "between the modules (a super name resolves in the declaring class's module and its imports "
                "only); each case issues "
                "is_derived_from for all pairs, property/method/nested-enum/variant lookups and "
                "common_base_class for all pairs; evaluations = individual queries judged",
        "exhaustive": exhaustive,
        "bound_completed": f"N <= {sizes[-1]} classes, <= 2 supers per class",
        "per_n": per_n,
        "distinct_outcomes": sorted(outcomes),
        "samples": samples or ["(no case completed: the engine was brought down, see violations)"],
    }
    assumptions = [
        "a Result::Err answer is accepted exactly when an unresolvable or non-class super is "
        "reachable from the queried class (the error is truthful); which of several declaring "
        "ancestors wins is unspecified and not judged",
        "termination is judged by a 20 s per-case watchdog inside the engine",
    ]
    return vc.finish("C17", tier, LEVEL, tally, cov, assumptions, t0)


def replay(path):
    """Re-runs the engine on the size recorded in the replay file and reports whether the
    signature is still observed."""
    vc.ensure_vdrive()
    with open(path) as f:
        r = json.load(f)
    n = r["case"].get("n", 3)
    out, _ = run_engine(n, alphabet=r["case"].get("alphabet", "dangling"), max_supers=r["case"].get("max_supers", 2))
    sigs = {v["signature"]: v for v in out.get("violations", [])}
    if out.get("crash"):
        sigs[r["signature"]] = out
    if out.get("hang"):
        sigs["hang:lookup-does-not-terminate"] = out
    if r["signature"] in sigs:
        print(f"VIOLATION property=C17 replay={path}")
        print("  ", json.dumps(sigs[r["signature"]])[:500])
        return 1
    print("replay: signature no longer observed")
    return 0
