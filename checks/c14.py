"""C14  The dynamic-binding mode changes only the support code and its diagnostics.

Relational oracle over the three configurations, no reference model: every document of the
shared corpora (C07 single edits + stressors + seeds, and the document generators of C03, C04,
C05, C10, C11, C12, C20 when present) is built in generate / reject / omit mode and the four
relations of the statement are checked.
"""
import collections
import importlib
import json
import re

import corpus
import vcommon as vc

LEVEL = "exploration"

SETUP_RE = re.compile(r"void setup\(\)\s*\{(.*?)\n    \}", re.S)


def header_is_empty(header):
    """True iff setup() performs nothing (no binding, no callback). None if unparsable."""
    m = SETUP_RE.search(header)
    if not m:
        return None
    body = [l.strip() for l in m.group(1).splitlines() if l.strip()]
    return len(body) == 0


def diag_key(d):
    return (d["s"], d["e"], d["msg"])


def judge(t, cid, src, r):
    case = {"id": cid, "source": src}
    t.inc("documents")
    if r.get("crashed") or r.get("timeout") or "parse_panic" in r or \
            any(r["modes"][m].get("status") == "panic" for m in vc.MODES):
        t.lost.append({"id": cid})          # C07 owns crashes and panics
        t.inc("lost")
        return
    g, rj, om = (r["modes"][m] for m in vc.MODES)
    syn = bool(r.get("has_syntax_error"))
    # 1. identical .ui whenever produced
    uis = {m: r["modes"][m]["ui"] for m in vc.MODES if r["modes"][m].get("status") == "built"}
    if len(set(uis.values())) > 1:
        a, b = [m for m in uis][:2]
        for x in uis:
            for y in uis:
                if uis[x] != uis[y]:
                    a, b = x, y
        t.violation("ui-differs-between-modes", dict(case, modes=[a, b]))
    if len(uis) >= 2:
        t.inc("ui_compared")
    # form is produced in all modes or in none
    if len(uis) not in (0, 3):
        t.violation("form-produced-in-some-modes-only", dict(case, built=sorted(uis)))
    # 2. header only in generate mode
    if rj.get("header") is not None or om.get("header") is not None:
        t.violation("header-outside-generate-mode", case)
    if g.get("status") == "built" and g.get("header") is None:
        t.inc("built_without_header_in_generate_mode")      # "only in generate mode" does not say "always": observed, not judged
    # 3. accepted(reject) <=> accepted(generate) and header empty
    acc_g = vc.accepted(g, syn)
    acc_r = vc.accepted(rj, syn)
    if acc_g:
        t.inc("accepted_generate")
        emp = header_is_empty(g["header"])
        if emp is None:
            raise vc.MachineryError("cannot find setup() in a generated header:\n" + g["header"][:400])
        t.inc("header_empty" if emp else "header_nonempty")
        t.distinct.add(("acc", emp, acc_r))
        if acc_r != emp:
            t.violation("reject-mode-acceptance:" +
                        ("accepted-a-document-with-dynamic-code" if acc_r else
                         "rejected-a-document-without-dynamic-code"),
                        dict(case, reject_diagnostics=rj["diagnostics"]))
    else:
        t.distinct.add(("rej", acc_r))
        if acc_r:
            t.violation("reject-mode-acceptance:accepted-what-generate-rejects",
                        dict(case, generate_diagnostics=g.get("diagnostics")))
    # 4. errors(omit) subset of errors(generate), as multisets
    eo = collections.Counter(diag_key(d) for d in om["diagnostics"] if d["kind"] == "error")
    eg = collections.Counter(diag_key(d) for d in g["diagnostics"] if d["kind"] == "error")
    if eo - eg:
        t.violation("omit-mode-error-missing-in-generate-mode",
                    dict(case, missing=[list(k) for k in (eo - eg)][:3]))
    if eo:
        t.inc("documents_with_omit_errors")


OTHER_CORPORA = ["c03", "c04", "c05", "c10", "c11", "c12", "c20", "c09"]


def all_documents(tier):
    for name, text in corpus.all_seeds(tier):
        yield (f"{name}#orig", text)
        for desc, mutated in corpus.single_edits(text):
            yield (f"{name}#{desc}", mutated)
    yield from corpus.stressor_docs()
    for cid, src in EXTRA_DOCS:
        yield (f"extra:{cid}", src)
    for mname in OTHER_CORPORA:
        try:
            mod = importlib.import_module(f"checks.{mname}")
        except ModuleNotFoundError:
            continue
        gen = getattr(mod, "documents", None)
        if gen is None:
            continue
        for cid, src in gen("quick" if tier == "quick" else "thorough", for_c14=True):
            yield (f"{mname}:{cid}", src)


EXTRA_DOCS = [
    ("spacer-dynamic", "import qmluic.QtWidgets\nQWidget { QCheckBox { id: c } QVBoxLayout { QSpacerItem { orientation: c.checked ? Qt.Horizontal : Qt.Vertical } } }\n"),
    ("spacer-dynamic-size", "import qmluic.QtWidgets\nQWidget { QSpinBox { id: s } QVBoxLayout { QSpacerItem { sizeHint.width: s.value } } }\n"),
    ("layout-dynamic", "import qmluic.QtWidgets\nQWidget { QSpinBox { id: s } QVBoxLayout { spacing: s.value } }\n"),
    ("action-dynamic", "import qmluic.QtWidgets\nQWidget { QCheckBox { id: c } QAction { enabled: c.checked } }\n"),
    ("attached-dynamic", "import qmluic.QtWidgets\nQWidget { QSpinBox { id: s } QVBoxLayout { QLabel { QLayout.rowStretch: s.value } } }\n"),
    ("tab-attached-dynamic", "import qmluic.QtWidgets\nQTabWidget { QLineEdit { id: e } QWidget { QTabWidget.title: e.text } }\n"),
    ("readonly-dynamic", "import qmluic.QtWidgets\nQWidget { QSpinBox { id: s } QLabel { width: s.value } }\n"),
    ("gadget-dynamic", "import qmluic.QtWidgets\nQWidget { QSpinBox { id: s } QLabel { font.pointSize: s.value; font.bold: true } }\n"),
    ("header-map-dynamic", "import qmluic.QtWidgets\nQWidget { QCheckBox { id: c } QTableView { horizontalHeader.visible: c.checked } }\n"),
    ("header-map-dynamic-braces", "import qmluic.QtWidgets\nQWidget { QCheckBox { id: c } QTableView { verticalHeader { stretchLastSection: c.checked; visible: false } } }\n"),
    ("tree-header-dynamic", "import qmluic.QtWidgets\nQWidget { QCheckBox { id: c } QTreeView { header { visible: c.checked } } }\n"),
    ("separator-with-callback", "import qmluic.QtWidgets\nQWidget { QLabel { id: l } QAction { separator: true; onTriggered: l.text = \"x\" } }\n"),
    ("separator-with-callback-listed", "import qmluic.QtWidgets\nQWidget { QLabel { id: l } QToolButton { actions: [s] } QAction { id: s; separator: true; onTriggered: l.text = \"x\" } }\n"),
    ("separator-with-callback-in-menu", "import qmluic.QtWidgets\nQWidget { QLabel { id: l } QMenu { QAction { text: \"a\" } QAction { separator: true; onToggled: l.text = \"x\" } } }\n"),
    ("separator-dynamic", "import qmluic.QtWidgets\nQWidget { QCheckBox { id: c } QAction { separator: c.checked } }\n"),
    ("separator-plus-dynamic-property", "import qmluic.QtWidgets\nQWidget { QCheckBox { id: c } QAction { separator: true; enabled: c.checked } }\n"),
    ("separator-plus-constant-property", "import qmluic.QtWidgets\nQWidget { QAction { separator: true; text: \"t\" } }\n"),
    ("model-dynamic", "import qmluic.QtWidgets\nQWidget { QLineEdit { id: e } QComboBox { model: [e.text] } }\n"),
    ("actions-dynamic", "import qmluic.QtWidgets\nQWidget { QCheckBox { id: c } QAction { id: a1 } QAction { id: a2 } QMenu { actions: c.checked ? [a1] : [a2] } }\n"),
    ("callback-only", "import qmluic.QtWidgets\nQPushButton { onClicked: console.log(1) }\n"),
    ("callback-on-action", "import qmluic.QtWidgets\nQWidget { QAction { onTriggered: console.log(1) } }\n"),
]


def with_warning(src):
    """The same document with an import version (a warning, not an error)."""
    if "import qmluic.QtWidgets\n" in src:
        return src.replace("import qmluic.QtWidgets\n", "import qmluic.QtWidgets 6.2\n", 1)
    return None


def shard_work(shard, nshards, payload):
    vd = vc.worker_vdrive(job_timeout=90.0)
    t = vc.Tally()
    for k, (cid, src) in enumerate(all_documents(payload["tier"])):
        if k % nshards != shard:
            continue
        r = vd.job({"id": cid, "source": src, "modes": list(vc.MODES)})
        judge(t, cid, src, r)
        # documents that carry a warning must obey the same relations
        if "modes" in r and r["modes"]["generate"].get("status") == "built" and (k // nshards) % 3 == 0:
            w = with_warning(src)
            if w is not None:
                judge(t, cid + "+warning", w, vd.job({"id": cid, "source": w, "modes": list(vc.MODES)}))
                t.inc("with_warning")
        if k % 5000 == 0:
            t.sample({"id": cid, "source_head": src[:160]})
    return t


# --------------------------------------------------------------------------- the modes through the real command

CLI_DOCS = [
    ("static", "import qmluic.QtWidgets\nQWidget { windowTitle: \"s\"; QLabel { text: \"x\" } }\n"),
    ("dynamic", "import qmluic.QtWidgets\nQWidget { QCheckBox { id: c } QLabel { text: \"x\"; visible: c.checked } }\n"),
    ("callback", "import qmluic.QtWidgets\nQWidget { QLabel { id: l } QPushButton { onClicked: l.text = \"x\" } }\n"),
    ("header-map-dynamic", "import qmluic.QtWidgets\nQWidget { QCheckBox { id: c } QTableView { horizontalHeader { stretchLastSection: c.checked } } }\n"),
    ("tree-header-dynamic", "import qmluic.QtWidgets\nQWidget { QCheckBox { id: c } QTreeView { header.visible: c.checked } }\n"),
]


COMPONENT_DOCS = [
    ("static-instance", 'MyButton { id: b; text: "x" }'),
    ("dynamic-binding-on-instance", 'MyButton { id: b; enabled: c.checked }'),
    ("callback-on-instance", 'MyButton { id: b; onClicked: l.text = "x" }'),
    ("callback-function-on-instance", 'MyButton { id: b; onToggled: function(on: bool) { l.visible = on } }'),
    ("dynamic-group-member-on-instance", 'MyButton { id: b; font.bold: c.checked }'),
    ("instance-read-by-a-binding", 'MyButton { id: b; checkable: true }\n    QLabel { visible: b.checked }'),
    ("anonymous-instance-with-binding", 'MyButton { enabled: c.checked }'),
    ("two-instances-one-dynamic", 'MyButton { id: b; text: "x" }\n    MyButton { id: b2; enabled: c.checked }'),
    ("instance-in-a-layout", 'QVBoxLayout { MyButton { id: b; enabled: c.checked } }'),
    ("plain-dynamic-no-instance", 'QPushButton { id: b; enabled: c.checked }'),
    ("plain-static-no-instance", 'QPushButton { id: b; text: "x" }'),
]


def cli_work(shard, nshards, payload):
    """Every sequence of <= 3 runs over {generate, reject} of one document in one directory: the exit
    status follows the in-process verdict of that mode, the .ui is the same file in both modes, and
    after a successful generate-mode run the support header is there and current."""
    import itertools
    import os
    import subprocess
    t = vc.Tally()
    vd = vc.worker_vdrive()
    maxlen = 3
    jobs = [(d, h) for d in CLI_DOCS for n in range(1, maxlen + 1) for h in itertools.product("GR", repeat=n)]
    with vc.scratch_dir("c14cli") as scratch:
        for k, ((name, src), hist) in enumerate(jobs):
            if k % nshards != shard:
                continue
            d = os.path.join(scratch, f"w{k}")
            os.makedirs(d)
            with open(os.path.join(d, "Doc.qml"), "w") as f:
                f.write(src)
            ref = vd.job({"id": k, "source": src, "modes": list(vc.MODES), "type_name": "Doc"})["modes"]
            case = {"id": f"cli/{name}/{''.join(hist)}", "source": src, "history": list(hist)}
            for step, mode in enumerate(hist):
                args = [vc.QMLUIC_BIN, "generate-ui", "--foreign-types", vc.METATYPES] + (["--no-dynamic-binding"] if mode == "R" else []) + ["Doc.qml"]
                p_ = subprocess.run(args, cwd=d, stdout=subprocess.PIPE, stderr=subprocess.PIPE, timeout=60)
                t.inc("cli_runs")
                m = ref["generate" if mode == "G" else "reject"]
                want_ok = vc.accepted(m)
                if (p_.returncode == 0) != want_ok:
                    t.violation("cli:exit-status-differs-from-the-mode's-verdict", dict(case, step=step, exit=p_.returncode))
                    break
                if not want_ok:
                    continue
                ui_path, h_path = os.path.join(d, "doc.ui"), os.path.join(d, "uisupport_doc.h")
                if not os.path.exists(ui_path) or open(ui_path).read() != m["ui"]:
                    t.violation("cli:ui-differs-between-modes", dict(case, step=step))
                if mode == "G" and (not os.path.exists(h_path) or open(h_path).read() != ref["generate"]["header"]):
                    t.violation("cli:generate-mode-run-left-no-current-header", dict(case, step=step, exists=os.path.exists(h_path)))
            t.distinct.add((name, hist))
        # several sources in one invocation, every ordered selection of 2 and 3 documents: each source's outputs
        # are those of its own translation, whatever was translated before it in the same run
        multi = [sel for n in (2, 3) for sel in itertools.permutations(range(len(CLI_DOCS)), n)]
        for k, sel in enumerate(multi):
            if k % nshards != shard:
                continue
            for mode in "GR":
                d = os.path.join(scratch, f"m{k}{mode}")
                os.makedirs(d)
                refs = []
                for j, di in enumerate(sel):
                    tn = f"Doc{'ABC'[j]}"
                    with open(os.path.join(d, tn + ".qml"), "w") as f:
                        f.write(CLI_DOCS[di][1])
                    refs.append((tn, vd.job({"id": k, "source": CLI_DOCS[di][1], "modes": list(vc.MODES), "type_name": tn})["modes"]))
                args = [vc.QMLUIC_BIN, "generate-ui", "--foreign-types", vc.METATYPES] + (["--no-dynamic-binding"] if mode == "R" else []) + \
                    [tn + ".qml" for tn, _r in refs]
                p_ = subprocess.run(args, cwd=d, stdout=subprocess.PIPE, stderr=subprocess.PIPE, timeout=60)
                t.inc("cli_runs")
                t.inc("cli_multi_source_runs")
                case = {"id": f"cli-multi/{'+'.join(CLI_DOCS[i][0] for i in sel)}/{mode}", "sources": [CLI_DOCS[i][1] for i in sel], "mode": mode,
                        "source": CLI_DOCS[sel[0]][1]}
                mname = "generate" if mode == "G" else "reject"
                want_ok = all(vc.accepted(r[mname]) for _tn, r in refs)
                if (p_.returncode == 0) != want_ok:
                    t.violation("cli:exit-status-differs-from-the-mode's-verdict", dict(case, exit=p_.returncode))
                    continue
                for tn, r in refs:
                    if not vc.accepted(r[mname]):
                        break               # the run stops at the first rejected source
                    ui_path, h_path = os.path.join(d, tn.lower() + ".ui"), os.path.join(d, f"uisupport_{tn.lower()}.h")
                    if not os.path.exists(ui_path) or open(ui_path).read() != r[mname]["ui"]:
                        t.violation("cli:multi-source:ui-differs-from-the-source's-own-translation", dict(case, file=tn))
                    if mode == "G" and (not os.path.exists(h_path) or open(h_path).read() != r["generate"]["header"]):
                        t.violation("cli:multi-source:header-differs-from-the-source's-own-translation", dict(case, file=tn))
                t.distinct.add(("multi", sel, mode))
        # a project with a component beside the document, every instance flavour x both file-name rules, each mode in
        # its own copy of the directory: same .ui files (names and bytes) whenever both modes produce them, and reject
        # mode accepts exactly when generate mode accepts with a header that sets up nothing
        import shutil
        for k, ((name, body), keep_case) in enumerate(itertools.product(COMPONENT_DOCS, (False, True))):
            if k % nshards != shard:
                continue
            outs = {}
            for mode in "GR":
                d = os.path.join(scratch, f"c{k}{mode}")
                os.makedirs(d)
                with open(os.path.join(d, "MyButton.qml"), "w") as f:
                    f.write("import qmluic.QtWidgets\nQPushButton { }\n")
                with open(os.path.join(d, "MainForm.qml"), "w") as f:
                    f.write("import qmluic.QtWidgets\nQWidget {\n    QCheckBox { id: c }\n    QLabel { id: l }\n    " + body + "\n}\n")
                args = [vc.QMLUIC_BIN, "generate-ui", "--foreign-types", vc.METATYPES] + (["--no-dynamic-binding"] if mode == "R" else []) + \
                    (["--no-lowercase-file-name"] if keep_case else []) + ["MainForm.qml"]
                p_ = subprocess.run(args, cwd=d, stdout=subprocess.PIPE, stderr=subprocess.PIPE, timeout=60)
                t.inc("cli_runs")
                files = {fn: open(os.path.join(d, fn), "rb").read() for fn in sorted(os.listdir(d)) if not fn.endswith(".qml")}
                outs[mode] = (p_.returncode, files)
            t.inc("component_scenarios")
            t.distinct.add(("component", name, keep_case))
            case = {"id": f"cli-component/{name}/{'keep-case' if keep_case else 'lowercase'}", "source": body,
                    "exits": {m: outs[m][0] for m in outs}, "files": {m: sorted(outs[m][1]) for m in outs}}
            (rg, fg), (rr, fr_) = outs["G"], outs["R"]
            if rg not in (0, 1) or rr not in (0, 1):
                t.violation("cli:crash", case)
                continue
            hdrs = [v for fn, v in fg.items() if fn.endswith(".h")]
            empty = all(header_is_empty(h.decode()) for h in hdrs) if hdrs else True
            if (rr == 0) != (rg == 0 and empty):
                t.violation("acceptance:reject-mode-differs-from-generate-with-an-empty-header", dict(case, header_sets_up_nothing=empty))
            if rr == 0 and any(fn.endswith(".h") for fn in fr_):
                t.violation("cli:header-written-outside-generate-mode", case)
            if rg == 0 and rr == 0:
                ug = {fn: v for fn, v in fg.items() if fn.endswith(".ui")}
                ur = {fn: v for fn, v in fr_.items() if fn.endswith(".ui")}
                if ug != ur:
                    t.violation("cli:ui-differs-between-modes", dict(case, differing=sorted(set(ug) ^ set(ur)) or sorted(fn for fn in ug if ug[fn] != ur.get(fn))))
            want_ui = "MainForm.ui" if keep_case else "mainform.ui"
            for m, (rc, fs) in outs.items():
                if rc == 0 and want_ui not in fs:
                    t.violation("cli:ui-name-does-not-follow-the-file-name-rule", dict(case, mode=m))
    return t


def main(tier, t0):
    vc.ensure_vdrive()
    vc.ensure_cli()
    tally = vc.merge_tallies(vc.run_sharded(shard_work, {"tier": tier}))
    tally.merge(vc.merge_tallies(vc.run_sharded(cli_work, {"tier": tier})))
    c = tally.counts
    cov = {
        "evaluations": c.get("documents", 0) * 3,
        "distinct_nontrivial": c.get("documents", 0) - c.get("lost", 0),
        "rule": "each enumerated document (distinct by construction) is built in all three modes and the "
                "four relations are checked; non-trivial = the document was decided (not lost to a "
                "panic owned by C07)",
        "exhaustive": True,
        "ui_pairs_compared": c.get("ui_compared", 0),
        "accepted_in_generate": c.get("accepted_generate", 0),
        "accepted_with_empty_header": c.get("header_empty", 0),
        "accepted_with_dynamic_code": c.get("header_nonempty", 0),
        "documents_with_errors_in_omit_mode": c.get("documents_with_omit_errors", 0),
        "warning_variants": c.get("with_warning", 0),
        "runs_of_the_real_command": c.get("cli_runs", 0),
        "distinct_acceptance_patterns": sorted(map(str, tally.distinct)),
    }
    assumptions = [
        "'header contains no bindings and no callbacks' is judged by an empty setup() body",
        "acceptance is what src/main.rs means: no syntax error, a form was built, no Error diagnostic",
    ]
    return vc.finish("C14", tier, LEVEL, tally, cov, assumptions, t0)


def replay(path):
    vc.ensure_vdrive()
    r = json.load(open(path))
    src = r["case"]["source"]
    vd = vc.VDrive()
    res = vd.job({"id": 0, "source": src, "modes": list(vc.MODES)})
    vd.close()
    t = vc.Tally()
    judge(t, r["case"].get("id"), src, res)
    if t.violations:
        print(f"VIOLATION property=C14 replay={path}")
        for s, _ in t.violations:
            print("  ", s)
        return 1
    print("replay: holds now")
    return 0
