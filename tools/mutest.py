#!/usr/bin/env python3
"""Applies one of my own deliberate property-breaking changes (tools/mutants.json) to /repo's
working tree, runs the named checks (quick tier), records what they report, and reverts
(git -C /repo checkout -- .).  Usage: tools/mutest.py <mutant-id>... | --all [--suite]"""
import json, os, subprocess, sys, time
HERE = os.path.dirname(os.path.abspath(__file__))
VERIF = os.path.dirname(HERE)
M = json.load(open(os.path.join(HERE, "mutants.json")))

def sh(cmd, **kw):
    return subprocess.run(cmd, shell=True, stdout=subprocess.PIPE, stderr=subprocess.STDOUT, text=True, **kw)

def run(mid, suite):
    m = M[mid]
    assert sh("git -C /repo status --porcelain --untracked-files=no").stdout.strip() == "", "repo dirty"
    try:
        for e in m["edits"]:
            p = os.path.join("/repo", e["file"])
            s = open(p).read()
            assert s.count(e["old"]) >= 1, f"{mid}: pattern not found in {e['file']}"
            s = s.replace(e["old"], e["new"], 1)
            open(p, "w").write(s)
        res = {"mutant": mid, "property": m["property"], "checks": {}}
        if suite:
            r = sh("cd /repo && cargo test --workspace --offline 2>&1 | grep -E '^test result|error(\\[|:)' ")
            ok = "FAILED" not in r.stdout and "error" not in r.stdout and "test result: ok" in r.stdout
            res["suite_passes"] = ok
        for c in m["checks"]:
            t0 = time.time()
            r = sh(f"cd {VERIF} && VERIF_EVIDENCE_DIR={VERIF}/scratch/mutation_evidence timeout -k 5 1200 ./check {c} --tier quick")
            sigs = [l.strip() for l in r.stdout.splitlines() if l.strip().startswith("signature:")]
            res["checks"][c] = {"exit": r.returncode, "signatures": sigs[:4], "wall_s": round(time.time() - t0, 1)}
        return res
    finally:
        sh("git -C /repo checkout -- .")

if __name__ == "__main__":
    args = [a for a in sys.argv[1:] if not a.startswith("--")]
    suite = "--suite" in sys.argv
    ids = list(M) if "--all" in sys.argv else args
    out = []
    for mid in ids:
        r = run(mid, suite)
        print(json.dumps(r))
        out.append(r)
    # rebuild engines against the clean tree
    sh(f"cd {VERIF} && ./setup.sh")
