#!/usr/bin/env python3
"""Validates MANIFEST.json and evidence/*.json against the schemas (uses the tooling venv's jsonschema)."""
import glob, json, sys
import jsonschema
ok = True
jsonschema.validate(json.load(open('/verif/MANIFEST.json')), json.load(open('/root/.vp/MANIFEST.schema.json')))
sch = json.load(open('/root/.vp/EVIDENCE.schema.json'))
for p in sorted(glob.glob('/verif/evidence/C*.json')):
    try:
        jsonschema.validate(json.load(open(p)), sch)
    except Exception as e:
        ok = False
        print('INVALID', p, str(e)[:300])
print('valid' if ok else 'INVALID')
sys.exit(0 if ok else 1)
