#!/bin/bash
# tools/seedsome.sh C01 C02 ...: like seedall.sh for the seeds of the named properties only
cd /verif
for P in "$@"; do
  for d in seeded/$P?; do
    id=$(basename $d); v=${id:3:1}
    [ -f $d/patch.diff ] || continue
    grep -q '"kept_as_breaking_change": false' $d/meta.json && continue
    timeout 1500 python3 tools/seedrun.py $P $v
  done
done
./setup.sh >/dev/null 2>&1
python3 tools/seedmeta.py > /dev/null
echo SEEDSOMEDONE
