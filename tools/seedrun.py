#!/usr/bin/env python3
"""Runs registered checks against a confirmed sub-agent mutant:
   tools/seedrun.py <Cxx> <A|B> [check ids...]   (default: the property's own check)
applies scratch/seeded_in/<Cxx>/<V>/patch.diff (or seeded/<Cxx><V>/patch.diff) to /repo,
runs ./check <id> --tier quick, records the result, and undoes the patch."""
import json, os, subprocess, sys, time
VERIF = os.path.dirname(os.path.dirname(os.path.abspath(__file__)))

def sh(cmd):
    return subprocess.run(cmd, shell=True, stdout=subprocess.PIPE, stderr=subprocess.STDOUT, text=True)

def main():
    pid, var = sys.argv[1], sys.argv[2]
    checks = sys.argv[3:] or [pid]
    for base in (f"{VERIF}/seeded/{pid}{var}", f"{VERIF}/scratch/seeded_in/{pid}/{var}", f"{VERIF}/scratch/seeded_in2/{pid}/{var}"):
        if os.path.exists(base + "/patch.diff"):
            break
    patch = base + "/patch.diff"
    assert sh("git -C /repo status --porcelain --untracked-files=no").stdout.strip() == "", "repo dirty"
    r = sh(f"git -C /repo apply {patch}")
    if r.returncode != 0:
        print(json.dumps({"id": pid + var, "error": "patch does not apply", "out": r.stdout[-300:]}))
        return
    res = {"id": pid + var, "checks": {}}
    try:
        for c in checks:
            t0 = time.time()
            r = sh(f"cd {VERIF} && VERIF_EVIDENCE_DIR={VERIF}/scratch/mutation_evidence timeout -k 5 1200 ./check {c} --tier quick")
            sigs = [l.strip()[len("signature: "):] for l in r.stdout.splitlines() if l.strip().startswith("signature:")]
            res["checks"][c] = {"exit": r.returncode, "detected": r.returncode == 1, "signatures": sigs[:5],
                                "wall_s": round(time.time() - t0, 1)}
    finally:
        sh("git -C /repo checkout -- .")
    print(json.dumps(res))
    with open(base + "/checkrun.json", "w") as f:
        json.dump(res, f, indent=1)

main()
