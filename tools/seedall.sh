#!/bin/bash
# Re-runs every installed seeded change against the check of its property (quick tier) and merges the
# results into seeded/<id>/meta.json.  Applies each patch to /repo and reverts it; evidence is diverted.
cd /verif
for d in seeded/C???; do
  id=$(basename $d); p=${id:0:3}; v=${id:3:1}
  [ -f $d/patch.diff ] || continue
  grep -q '"kept_as_breaking_change": false' $d/meta.json && continue
  timeout 1500 python3 tools/seedrun.py $p $v
done
./setup.sh >/dev/null 2>&1
python3 tools/seedmeta.py > /dev/null
echo SEEDALLDONE
