#!/usr/bin/env python3
"""Round 2 of sub-agent mutants (variants C and D): copies confirmed ones from scratch/seeded_in2 into
/verif/seeded/<id>/ with meta.json (same layout as tools/seedinstall.py)."""
import glob, json, os, shutil
V = os.path.dirname(os.path.dirname(os.path.abspath(__file__)))
NEEDS = json.load(open(os.path.join(V, "tools", "seeded_round2.json")))
for d in sorted(glob.glob(f"{V}/scratch/seeded_in2/C??/[C-J]")):
    pid, var = d.split("/")[-2], d.split("/")[-1]
    mid = pid + var
    vj = os.path.join(d, "verify.json")
    if not os.path.exists(vj):
        continue
    v = json.load(open(vj))
    confirmed = all(v.get(k) for k in ("applies", "suite_passes", "demo_fails_with_patch", "demo_passes_without"))
    if not confirmed:
        print(mid, "NOT confirmed", v)
        continue
    dst = f"{V}/seeded/{mid}"
    os.makedirs(dst, exist_ok=True)
    for fn in os.listdir(d):
        src_ = os.path.join(d, fn)
        if fn.startswith(("patch", "demo", "README", "harness", "preview")) and not fn.endswith(".log") and os.path.isfile(src_):
            shutil.copy(src_, dst)
        elif fn == "harness" and os.path.isdir(src_):       # small stand-alone cargo package some demonstrations build
            shutil.copytree(src_, os.path.join(dst, fn), dirs_exist_ok=True, ignore=shutil.ignore_patterns("target"))
    old = json.load(open(os.path.join(dst, "meta.json"))) if os.path.exists(os.path.join(dst, "meta.json")) else {}
    meta = {"id": mid, "property": pid, "origin": "fresh sub-agent (round %s) given only the property text, one-line descriptions of the earlier seeds to avoid, and a scratch worktree" % {"C": 2, "D": 2, "E": 3, "F": 3, "G": 4, "H": 4, "I": 5, "J": 5}.get(mid[3], "?"),
            "needs_to_manifest": NEEDS.get(mid, {}).get("needs", ""),
            "confirmed": {"how": "tools/seedverify.sh in a scratch worktree of /repo HEAD: patch applies, unedited `cargo test --workspace --offline` passes (339 tests), demo fails with the patch, demo passes without it", **v},
            "kept_as_breaking_change": True,
            "first_run": NEEDS.get(mid, {}).get("first_run", ""),
            "checks_run": old.get("checks_run", {}), "detected_by": old.get("detected_by", [])}
    json.dump(meta, open(os.path.join(dst, "meta.json"), "w"), indent=1)
    print(mid, "installed")
