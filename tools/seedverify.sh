#!/bin/bash
# Confirms one sub-agent mutant in a scratch worktree (outside /repo and /verif):
#   tools/seedverify.sh <Cxx> <A|B> <srcdir>      srcdir holds A/ B/ with patch.diff + demo.*
# 1. worktree at /tmp/mut/<Cxx> of /repo HEAD   2. patch applies   3. unedited suite passes
# 4. demo fails with the patch                  5. demo passes without it        6. cleanup
# Result: JSON line on stdout and in <srcdir>/<A|B>/verify.json
set -u
P=$1; V=$2; SRC=$3
WT=/tmp/mut/$P
LOG=$SRC/$V/verify.log
: > $LOG
git -C /repo worktree remove --force $WT >/dev/null 2>&1
rm -rf $WT
git -C /repo worktree add --detach $WT HEAD >>$LOG 2>&1 || { echo "{\"id\":\"$P$V\",\"error\":\"worktree\"}"; exit 1; }
mkdir -p $WT/OUT && cp -r $SRC/$V $WT/OUT/ 
cp -r /repo/target $WT/target 2>/dev/null
cd $WT
DEMO=$(ls OUT/$V/demo.* | head -1)
case $DEMO in *.py) RUN="python3 $DEMO";; *.sh) RUN="sh $DEMO";; *) RUN="$DEMO";; esac
applies=false; suite=false; demo_fail=false; demo_pass=false
if git apply --check OUT/$V/patch.diff >>$LOG 2>&1; then
  git apply OUT/$V/patch.diff && applies=true
  if cargo test --workspace --offline >>$LOG 2>&1; then suite=true; fi
  $RUN >>$LOG 2>&1; rc=$?; [ $rc -ne 0 ] && demo_fail=true
  git checkout -- . 
  $RUN >>$LOG 2>&1; rc=$?; [ $rc -eq 0 ] && demo_pass=true
fi
cd /
git -C /repo worktree remove --force $WT >/dev/null 2>&1; rm -rf $WT
R="{\"id\":\"$P$V\",\"applies\":$applies,\"suite_passes\":$suite,\"demo_fails_with_patch\":$demo_fail,\"demo_passes_without\":$demo_pass,\"demo\":\"$RUN\"}"
echo "$R" | tee $SRC/$V/verify.json
