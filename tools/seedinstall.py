#!/usr/bin/env python3
"""Copies confirmed sub-agent mutants from scratch/seeded_in into /verif/seeded/<id>/ with meta.json."""
import glob, json, os, shutil
V = os.path.dirname(os.path.dirname(os.path.abspath(__file__)))
NEEDS = {
 "C01A": "integer '%' folded at translation time with a negative dividend that is not a multiple of the divisor (checked_rem -> checked_rem_euclid)",
 "C01B": "a switch nested in a clause body of another switch, the inner one containing `break`, the outer clause having statements after it, and a state selecting that inner clause (inner break jumps to the outer exit)",
 "C02A": "the same property read twice through one dynamic `let` variable that is re-assigned between the reads without a branch, then a change on the object selected second (observer subscription skipped)",
 "C02B": "a chain through a pointer-valued property (holder.editor.text): re-pointing or nulling the intermediate pointer after setup(); also a no-NOTIFY pointer read is accepted",
 "C03A": "`^` between enum/flag operands that share a bit is flattened like `|` into the .ui <set>",
 "C03B": "an integer literal in [2^63, 2^64) in any spelling wraps to a negative number instead of being rejected",
 "C04A": "a grouped binding mixing one constant and one dynamic member on the same object: the dynamic member lands neither in the .ui nor in the header, no diagnostic",
 "C04B": "several sources on one command line with the erroneous one not last: the error is printed but the command exits 0",
 "C05A": "a binding with >= 3 return paths where an untyped literal (null / integer literal / []) sits between two paths of incompatible types (pairwise instead of cumulative type deduction)",
 "C05B": "two different plain (non-flag, non-aliased) enum types mixed in an assignment, comparison, call or binding",
 "C06A": "`&&` whose right operand spans more than one basic block (a || b, c ? x : y): the jump skips its evaluation and a temporary is read unassigned",
 "C06B": "a value binding with a switch that has a default and a reachable `break`, followed by a tail that ends without a value: return-type check ignores blocks reached only through the backward `break` edge",
 "C07A": "a binding whose name consists only of capitalised components (`Foo: 1`, `Foo.Bar: 1`): filed as attached binding, later expect() panics (exit 101)",
 "C07B": "a QML component on an inheritance cycle (Loop.qml containing `Loop {}`, Ping/Pong): is_derived_from recursion without visited set, stack overflow",
 "C08A": "a palette with a default role plus an explicit colour group that does not define that role: result depends on hash-map iteration order",
 "C08B": "two or more sources in one invocation with an earlier one emitting a warning: diagnostics of earlier documents are printed again for later ones",
 "C09A": "any constant empty string: the Text event is skipped and the indenting writer puts newline+blanks between the tags",
 "C09B": "a user string landing in a gadget attribute (icon theme name) containing & < or \": written unescaped, ill-formed XML",
 "C10A": "(neutralised by the fix commit for generated-name collisions: with every issued name reserved, the counter slip no longer changes any name; not kept as a breaking change)",
 "C10B": "ids spelled like numbered generated names (label1) without an id equal to the bare prefix and >= 2 anonymous objects of that class: generated name collides with the id",
 "C11A": "two or more `QAction { separator: true }` children without an explicit actions list: separators after the first disappear (.unique())",
 "C11B": "a QMenu-derived direct child of a QTabWidget without explicit actions list: its addaction entry is missing",
 "C12A": "QGridLayout with flow TopToBottom and rows: N plus an explicit row >= N (no longer diagnosed) or column >= N (wrongly rejected): limits swapped",
 "C12B": "a row/column setting recorded first at a higher index and later at a lower, still unset index: the later value is dropped",
 "C13A": "a signal name with >= 3 meta-method entries where the shortest is a prefix of two real overloads: handler wired to one of them instead of being rejected",
 "C13B": "a typed handler parameter that differs from the signal argument but is cast-convertible (uint for int, int for bool/enum): accepted",
 "C14A": "a document that has a warning (import version) and a dynamic binding or callback, in reject mode: accepted and bindings silently dropped",
 "C14B": "a QSpacerItem property bound to a non-constant expression: generate mode accepts with empty header, reject mode still rejects",
 "C15A": "-O <dir> with a source path whose `..` comes after a normal component (sub/../../Outer.qml): outputs land outside the output directory",
 "C15B": "an existing output whose content changes, process killed exactly between the added unlink and the rename: the output path is missing",
 "C16A": "Math.max/min used only inside a gadget sub-binding (font.pointSize: Math.max(..)): header uses std::max without #include <algorithm>",
 "C16B": "three or more bindings whose capitalised <id><Property> prefixes coincide: the unique-name counter loses an increment, duplicate BindingIndex enumerators and functions",
 "C17A": "a diamond where an ancestor lists an already-visited base before a new one: the classes after it are dropped from the walk",
 "C17B": "a cyclic super-class reference reachable from the queried class: recursion without visited set overflows the stack",
 "C18A": "a string import containing `..` or a symlink (import \"../widgets\"): directory registered under a non-normalised path; mutually importing directories re-populated ~800 times",
 "C18B": "two instances of one custom component separated by an instance of another (.unique() -> .dedup()): listed twice under <customwidgets>",
 "C19A": "the 20-letter keyword lightgoldenrodyellow written with at least one upper-case letter: rejected (>= 20 guard)",
 "C19B": "'#' + 6 or 8 characters where a '+' sits at the start of a two-character channel (#00+f00): embedded as a guessed colour",
 "C20A": "an unknown object type planted on an object that has a custom component or a referenced id below it: descendants stay in the flat node list (customwidgets entry / resolvable id survives)",
 "C20B": "a duplicated ordinary binding on a layout child that also carries QLayout.* attached bindings: the attached bindings are lost too, siblings move",
}
for d in sorted(glob.glob(f"{V}/scratch/seeded_in/C??/[AB]")):
    pid, var = d.split("/")[-2], d.split("/")[-1]
    mid = pid + var
    vj = os.path.join(d, "verify.json")
    if not os.path.exists(vj):
        continue
    v = json.load(open(vj))
    confirmed = all(v.get(k) for k in ("applies", "suite_passes", "demo_fails_with_patch", "demo_passes_without"))
    dst = f"{V}/seeded/{mid}"
    if mid == "C10A":
        confirmed = False
    if not confirmed and mid != "C10A":
        continue
    os.makedirs(dst, exist_ok=True)
    for fn in os.listdir(d):
        if fn.startswith(("patch", "demo", "README")) and not fn.endswith(".log") and os.path.isfile(os.path.join(d, fn)):
            shutil.copy(os.path.join(d, fn), dst)
    run = {}
    cr = os.path.join(d, "checkrun.json")
    if os.path.exists(cr):
        run = json.load(open(cr)).get("checks", {})
    meta = {"id": mid, "property": pid, "origin": "fresh sub-agent given only the property text and a scratch worktree",
            "needs_to_manifest": NEEDS.get(mid, ""),
            "confirmed": {"how": "tools/seedverify.sh in a scratch worktree of /repo HEAD: patch applies, unedited `cargo test --workspace --offline` passes (339 tests), demo fails with the patch, demo passes without it",
                          **v},
            "kept_as_breaking_change": confirmed,
            "checks_run": {c: {"detected": r["detected"], "signatures": r["signatures"]} for c, r in run.items()},
            "detected_by": [c for c, r in run.items() if r["detected"]]}
    if os.path.exists(os.path.join(d, "patch.orig.diff")):
        meta["note"] = "patch.diff is the agent's change ported by hand onto the tree after the fix commits (patch.orig.diff is the original against the pinned commit)"
    json.dump(meta, open(os.path.join(dst, "meta.json"), "w"), indent=1)
    print(mid, confirmed, meta["detected_by"])
