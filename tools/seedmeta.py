#!/usr/bin/env python3
"""Merges seeded/<id>/checkrun.json (written by tools/seedrun.py) into seeded/<id>/meta.json."""
import glob, json, os
V = os.path.dirname(os.path.dirname(os.path.abspath(__file__)))
for d in sorted(glob.glob(f"{V}/seeded/C???")):
    mp, cp = os.path.join(d, "meta.json"), os.path.join(d, "checkrun.json")
    if not (os.path.exists(mp) and os.path.exists(cp)):
        continue
    meta, run = json.load(open(mp)), json.load(open(cp)).get("checks", {})
    for c, r in run.items():
        meta.setdefault("checks_run", {})[c] = {"detected": r["detected"], "signatures": r["signatures"]}
    meta["detected_by"] = sorted(c for c, r in meta.get("checks_run", {}).items() if r["detected"])
    json.dump(meta, open(mp, "w"), indent=1)
    print(os.path.basename(d), meta["detected_by"])
