#!/bin/bash
# tools/seedcollect.sh <Cxx> <agent root, e.g. /tmp/mut3> <X> <Y>: copies OUT/A -> scratch/seeded_in2/<Cxx>/<X>, OUT/B -> <Y>
# (without build caches), fixes the demo paths, removes the agent's worktree.
P=$1; R=$2; X=$3; Y=$4
mkdir -p /verif/scratch/seeded_in2/$P/$X /verif/scratch/seeded_in2/$P/$Y
rsync -a --exclude target $R/$P/OUT/A/ /verif/scratch/seeded_in2/$P/$X/
rsync -a --exclude target $R/$P/OUT/B/ /verif/scratch/seeded_in2/$P/$Y/
git -C /repo worktree remove --force $R/$P >/dev/null 2>&1; rm -rf $R/$P
sed -i "s#OUT/A#OUT/$X#g; s#\"OUT\", \"A\"#\"OUT\", \"$X\"#g" /verif/scratch/seeded_in2/$P/$X/demo.py
sed -i "s#OUT/B#OUT/$Y#g; s#\"OUT\", \"B\"#\"OUT\", \"$Y\"#g" /verif/scratch/seeded_in2/$P/$Y/demo.py
