// Hand-written core of the Qt API model used to compile and execute generated
// uisupport_*.h headers (E3).  Class declarations (properties, signals, slots, enums) are NOT
// here: they are generated from the same metatypes qmluic reads (qtmock_gen.py).
//
// Signal/slot semantics modelled (standard Qt direct connections): slots run synchronously in
// connection order; a connection made during an emission is not invoked by that emission; a
// disconnected connection is skipped; a functor may take fewer arguments than the signal;
// connect() returns a handle that becomes false on disconnect().  Object deletion is not modelled.
#pragma once
#include <algorithm>
#include <cstdint>
#include <cstring>
#include <functional>
#include <initializer_list>
#include <memory>
#include <sstream>
#include <stdexcept>
#include <string>
#include <tuple>
#include <type_traits>
#include <typeinfo>
#include <utility>
#include <vector>

typedef unsigned int uint;
typedef uint32_t quint32;
typedef double qreal;

namespace verif {
struct Undefined : std::runtime_error { using std::runtime_error::runtime_error; };
struct AssertFailed : std::runtime_error { using std::runtime_error::runtime_error; };
struct Unreachable : std::runtime_error { Unreachable() : std::runtime_error("Q_UNREACHABLE() reached") {} };

// global observation log: setter calls, slot calls, log output
inline std::vector<std::string> &trace() { static std::vector<std::string> t; return t; }
inline bool &tracing() { static bool on = false; return on; }
inline void note(const std::string &s) { if (tracing()) trace().push_back(s); }
inline long &connectCount() { static long n = 0; return n; }
inline long &liveConnections() { static long n = 0; return n; }
}  // namespace verif

#define Q_UNLIKELY(x) (x)
#define Q_LIKELY(x) (x)
#define Q_UNUSED(x) (void)(x)
#define Q_ASSERT_X(cond, where, what) do { if (!(cond)) throw verif::AssertFailed(what); } while (0)
#define Q_ASSERT(cond) do { if (!(cond)) throw verif::AssertFailed(#cond); } while (0)
#define Q_UNREACHABLE() throw verif::Unreachable()
// exactly like Qt: the argument must be a narrow string literal body that can be glued to u""
#define QStringLiteral(str) QString::fromLiteral(u"" str)

// ---------------------------------------------------------------------------- QString
class QString {
public:
    QString() {}
    QString(const char16_t *s) : d(s) {}
    QString(const char16_t *s, size_t n) : d(s, n) {}
    explicit QString(const std::u16string &s) : d(s) {}
    // like Qt, the length of a literal comes from its size, so embedded NULs survive
    template <size_t N> static QString fromLiteral(const char16_t (&s)[N]) { return QString(s, N - 1); }
    static QString fromUtf8(const char *s) {
        // UTF-8 -> UTF-16
        std::u16string out;
        const unsigned char *p = reinterpret_cast<const unsigned char *>(s);
        while (*p) {
            uint32_t cp;
            if (*p < 0x80) { cp = *p++; }
            else if ((*p >> 5) == 6) { cp = (*p & 0x1f) << 6 | (p[1] & 0x3f); p += 2; }
            else if ((*p >> 4) == 14) { cp = (*p & 0x0f) << 12 | (p[1] & 0x3f) << 6 | (p[2] & 0x3f); p += 3; }
            else { cp = (*p & 0x07) << 18 | (p[1] & 0x3f) << 12 | (p[2] & 0x3f) << 6 | (p[3] & 0x3f); p += 4; }
            if (cp > 0xffff) { cp -= 0x10000; out.push_back(char16_t(0xd800 + (cp >> 10))); out.push_back(char16_t(0xdc00 + (cp & 0x3ff))); }
            else out.push_back(char16_t(cp));
        }
        return QString(out);
    }
    static QString fromStd(const std::string &s) { return fromUtf8(s.c_str()); }
    static QString number(long long v) { return fromStd(std::to_string(v)); }
    static QString number(double v) { std::ostringstream o; o.precision(6); o << v; return fromStd(o.str()); }
    bool isEmpty() const { return d.empty(); }
    int size() const { return int(d.size()); }
    const std::u16string &u16() const { return d; }
    std::string hex() const {   // code units as hex, for exact comparison in harness output
        static const char *H = "0123456789abcdef";
        std::string o;
        for (char16_t c : d) { o.push_back(H[(c >> 12) & 15]); o.push_back(H[(c >> 8) & 15]); o.push_back(H[(c >> 4) & 15]); o.push_back(H[c & 15]); }
        return o;
    }
    std::string toUtf8() const {
        std::string o;
        for (size_t i = 0; i < d.size(); ++i) {
            uint32_t cp = d[i];
            if (cp >= 0xd800 && cp <= 0xdbff && i + 1 < d.size()) { cp = 0x10000 + ((cp - 0xd800) << 10) + (d[i + 1] - 0xdc00); ++i; }
            if (cp < 0x80) o.push_back(char(cp));
            else if (cp < 0x800) { o.push_back(char(0xc0 | cp >> 6)); o.push_back(char(0x80 | (cp & 0x3f))); }
            else if (cp < 0x10000) { o.push_back(char(0xe0 | cp >> 12)); o.push_back(char(0x80 | ((cp >> 6) & 0x3f))); o.push_back(char(0x80 | (cp & 0x3f))); }
            else { o.push_back(char(0xf0 | cp >> 18)); o.push_back(char(0x80 | ((cp >> 12) & 0x3f))); o.push_back(char(0x80 | ((cp >> 6) & 0x3f))); o.push_back(char(0x80 | (cp & 0x3f))); }
        }
        return o;
    }
    QString operator+(const QString &o) const { return QString(d + o.d); }
    QString &operator+=(const QString &o) { d += o.d; return *this; }
    bool operator==(const QString &o) const { return d == o.d; }
    bool operator!=(const QString &o) const { return d != o.d; }
    bool operator<(const QString &o) const { return d < o.d; }
    bool operator<=(const QString &o) const { return d <= o.d; }
    bool operator>(const QString &o) const { return d > o.d; }
    bool operator>=(const QString &o) const { return d >= o.d; }
    // replaces every occurrence of the lowest-numbered place marker %1..%99
    QString arg(const QString &a) const {
        int lowest = 100;
        for (size_t i = 0; i + 1 < d.size(); ++i) {
            if (d[i] == u'%' && d[i + 1] >= u'0' && d[i + 1] <= u'9') {
                int n = d[i + 1] - u'0';
                if (i + 2 < d.size() && d[i + 2] >= u'0' && d[i + 2] <= u'9') n = n * 10 + (d[i + 2] - u'0');
                if (n >= 1 && n < lowest) lowest = n;
            }
        }
        if (lowest == 100) return *this;
        std::u16string out;
        for (size_t i = 0; i < d.size();) {
            if (d[i] == u'%' && i + 1 < d.size() && d[i + 1] >= u'0' && d[i + 1] <= u'9') {
                int n = d[i + 1] - u'0';
                size_t len = 2;
                if (i + 2 < d.size() && d[i + 2] >= u'0' && d[i + 2] <= u'9') { n = n * 10 + (d[i + 2] - u'0'); len = 3; }
                if (n == lowest) { out += a.d; i += len; continue; }
            }
            out.push_back(d[i++]);
        }
        return QString(out);
    }
    QString arg(int v) const { return arg(number((long long)v)); }
    QString arg(uint v) const { return arg(number((long long)v)); }
    QString arg(double v) const { return arg(number(v)); }
private:
    std::u16string d;
};

// ---------------------------------------------------------------------------- QList
template <typename T>
class QList {
public:
    QList() {}
    QList(std::initializer_list<T> l) : d(l) {}
    bool isEmpty() const { return d.empty(); }
    int size() const { return int(d.size()); }
    const T &at(int i) const {
        if (i < 0 || size_t(i) >= d.size()) throw verif::Undefined("QList::at out of range");
        return d[size_t(i)];
    }
    T &operator[](int i) {
        if (i < 0 || size_t(i) >= d.size()) throw verif::Undefined("QList::operator[] out of range");
        return d[size_t(i)];
    }
    void append(const T &v) { d.push_back(v); }
    bool operator==(const QList<T> &o) const { return d == o.d; }
    bool operator!=(const QList<T> &o) const { return !(d == o.d); }
    typename std::vector<T>::const_iterator begin() const { return d.begin(); }
    typename std::vector<T>::const_iterator end() const { return d.end(); }
private:
    std::vector<T> d;
};
typedef QList<QString> QStringList;
template <typename T> using QVector = QList<T>;

// ---------------------------------------------------------------------------- QVariant
class QVariant {
public:
    enum Kind { Invalid, Bool, Int, UInt, Double, String };
    QVariant() {}
    QVariant(bool v) : k(Bool), i(v) {}
    QVariant(int v) : k(Int), i(v) {}
    QVariant(uint v) : k(UInt), i(v) {}
    QVariant(double v) : k(Double), dbl(v) {}
    QVariant(const QString &v) : k(String), s(v) {}
    template <typename T> T value() const;
    bool operator==(const QVariant &o) const { return k == o.k && i == o.i && dbl == o.dbl && s == o.s; }
    bool operator!=(const QVariant &o) const { return !(*this == o); }
    Kind k = Invalid;
    long long i = 0;
    double dbl = 0;
    QString s;
};
template <> inline bool QVariant::value<bool>() const { return k == Bool ? i != 0 : false; }
template <> inline int QVariant::value<int>() const { return k == Int ? int(i) : 0; }
template <> inline uint QVariant::value<uint>() const { return k == UInt ? uint(i) : 0; }
template <> inline double QVariant::value<double>() const { return k == Double ? dbl : 0; }
template <> inline QString QVariant::value<QString>() const { return k == String ? s : QString(); }

// ---------------------------------------------------------------------------- connections
class QObject;
namespace verif {
struct ConnData {
    bool connected = true;
    QObject *sender = nullptr;
    std::string key;                 // identifies the signal (bytes of the member pointer + its type)
    std::shared_ptr<void> functor;   // std::function<void(Args...)> of the signal's signature
    std::string receiverTag;         // free text for explorers (binding name), may be empty
};
template <typename PMF> std::string signalKey(PMF p) {
    std::string k(reinterpret_cast<const char *>(&p), sizeof p);
    k += typeid(PMF).name();
    return k;
}
// calls f with the longest prefix of the signal arguments it accepts
template <typename F, typename Tuple, size_t... I>
constexpr bool invocableWith(std::index_sequence<I...>) {
    return std::is_invocable_v<F &, std::tuple_element_t<I, Tuple> &...>;
}
template <typename F, typename Tuple, size_t... I>
void callIdx(F &f, Tuple &t, std::index_sequence<I...>) { f(std::get<I>(t)...); }
template <size_t N, typename F, typename Tuple>
void invokeLongestPrefix(F &f, Tuple &t) {
    if constexpr (invocableWith<F, Tuple>(std::make_index_sequence<N>())) {
        callIdx(f, t, std::make_index_sequence<N>());
    } else {
        static_assert(N > 0, "functor is not invocable with any prefix of the signal arguments");
        invokeLongestPrefix<N - 1>(f, t);
    }
}
template <typename T> struct identity { typedef T type; };
}  // namespace verif

namespace QMetaObject {
class Connection {
public:
    Connection() {}
    explicit Connection(std::shared_ptr<verif::ConnData> p) : d(std::move(p)) {}
    explicit operator bool() const { return d && d->connected; }
    bool operator!() const { return !(d && d->connected); }
    std::shared_ptr<verif::ConnData> d;
};
}  // namespace QMetaObject

template <typename... Args>
struct QOverload {
    template <typename R, typename T>
    static constexpr auto of(R (T::*p)(Args...)) -> decltype(p) { return p; }
    template <typename R, typename T>
    constexpr auto operator()(R (T::*p)(Args...)) const -> decltype(p) { return p; }
};

class QObject {
public:
    QObject() {}
    virtual ~QObject() {}
    QObject(const QObject &) = delete;
    std::string vname;      // harness name of the object (for traces)

    template <typename Sender, typename R, typename C, typename... Args, typename Functor>
    static QMetaObject::Connection connect(Sender *sender, R (C::*signal)(Args...), QObject *context, Functor f) {
        static_assert(std::is_base_of_v<C, Sender>, "signal does not belong to the sender's class");
        (void)context;
        if (!sender) throw verif::Undefined("connect() with null sender");
        auto data = std::make_shared<verif::ConnData>();
        data->sender = sender;
        data->key = verif::signalKey(signal);
        using Tuple = std::tuple<std::decay_t<Args>...>;
        auto fn = std::make_shared<std::function<void(Tuple &)>>([f](Tuple &t) mutable {
            verif::invokeLongestPrefix<sizeof...(Args)>(f, t);
        });
        data->functor = fn;
        static_cast<QObject *>(static_cast<C *>(sender))->conns.push_back(data);
        ++verif::connectCount();
        ++verif::liveConnections();
        return QMetaObject::Connection(data);
    }
    static bool disconnect(const QMetaObject::Connection &c) {
        if (!c.d || !c.d->connected) return false;
        c.d->connected = false;
        auto &v = c.d->sender->conns;
        v.erase(std::remove(v.begin(), v.end(), c.d), v.end());
        --verif::liveConnections();
        return true;
    }
    // used by generated signal bodies
    template <typename C, typename... Args>
    void activate(void (C::*signal)(Args...), typename verif::identity<Args>::type... args) {
        std::string key = verif::signalKey(signal);
        using Tuple = std::tuple<std::decay_t<Args>...>;
        Tuple t(args...);
        std::vector<std::shared_ptr<verif::ConnData>> snapshot = conns;   // later connects are not invoked
        for (auto &c : snapshot) {
            if (!c->connected || c->key != key) continue;
            auto fn = std::static_pointer_cast<std::function<void(Tuple &)>>(c->functor);
            (*fn)(t);
        }
    }
    size_t connectionCount() const { return conns.size(); }
    std::vector<std::shared_ptr<verif::ConnData>> conns;
    // the one property of QObject itself
    QString m_objectName;
    QString objectName() const { return m_objectName; }
    void setObjectName(const QString &v) {
        verif::note(vname + ".setObjectName(s:" + v.hex() + ")");
        if (m_objectName == v) return;
        m_objectName = v;
        objectNameChanged(v);
    }
    void objectNameChanged(const QString &a0) {
        this->template activate<QObject, const QString &>(static_cast<void (QObject::*)(const QString &)>(&QObject::objectNameChanged), a0);
    }
};

// ---------------------------------------------------------------------------- logging
class QDebug {
public:
    explicit QDebug(const char *level) : level_(level), first_(true) {}
    QDebug(QDebug &&o) : level_(o.level_), buf_(o.buf_.str()), first_(o.first_), moved_(false) { o.moved_ = true; }
    ~QDebug() { if (!moved_) verif::note(std::string(level_) + ": " + buf_.str()); }
    QDebug &noquote() { return *this; }
    QDebug &nospace() { return *this; }
    QDebug &operator<<(const QString &s) { sep(); buf_ << s.toUtf8(); return *this; }
    QDebug &operator<<(const char *s) { sep(); buf_ << s; return *this; }
    QDebug &operator<<(bool b) { sep(); buf_ << (b ? "true" : "false"); return *this; }
    QDebug &operator<<(int v) { sep(); buf_ << v; return *this; }
    QDebug &operator<<(uint v) { sep(); buf_ << v; return *this; }
    QDebug &operator<<(long long v) { sep(); buf_ << v; return *this; }
    QDebug &operator<<(double v) { sep(); buf_ << v; return *this; }
    QDebug &operator<<(const QStringList &l) { sep(); buf_ << "("; bool f = true; for (auto &s : l) { if (!f) buf_ << ", "; f = false; buf_ << s.toUtf8(); } buf_ << ")"; return *this; }
    QDebug &operator<<(const QObject *o) { sep(); buf_ << (o ? o->vname : std::string("0x0")); return *this; }
    template <typename E, std::enable_if_t<std::is_enum_v<E>, int> = 0>
    QDebug &operator<<(E e) { sep(); buf_ << static_cast<long long>(e); return *this; }
private:
    void sep() { if (!first_) buf_ << ' '; first_ = false; }
    const char *level_;
    std::ostringstream buf_;
    bool first_;
    bool moved_ = false;
};
// qDebug() qInfo() qWarning() qCritical() are declared by the <QtDebug> stub only

class QCoreApplication {
public:
    static QString translate(const char *context, const char *sourceText, const char * = nullptr, int = -1) {
        verif::note(std::string("translate(") + context + ")");
        return QString::fromUtf8(sourceText);
    }
};

// lenient operators for every enum (the model must never be stricter than QFlags)
template <typename E, std::enable_if_t<std::is_enum_v<E>, int> = 0>
constexpr E operator|(E a, E b) { return E(static_cast<long long>(a) | static_cast<long long>(b)); }
template <typename E, std::enable_if_t<std::is_enum_v<E>, int> = 0>
constexpr E operator&(E a, E b) { return E(static_cast<long long>(a) & static_cast<long long>(b)); }
template <typename E, std::enable_if_t<std::is_enum_v<E>, int> = 0>
constexpr E operator^(E a, E b) { return E(static_cast<long long>(a) ^ static_cast<long long>(b)); }
template <typename E, std::enable_if_t<std::is_enum_v<E>, int> = 0>
constexpr E operator~(E a) { return E(~static_cast<long long>(a)); }

namespace verif {
template <typename T> std::string show(const T &v);
inline std::string showValue(bool v) { return v ? "true" : "false"; }
inline std::string showValue(int v) { return std::to_string(v); }
inline std::string showValue(uint v) { return std::to_string(v) + "u"; }
inline std::string showValue(long v) { return std::to_string(v) + "l"; }
inline std::string showValue(unsigned long v) { return std::to_string(v) + "ul"; }
inline std::string showValue(long long v) { return std::to_string(v) + "ll"; }
inline std::string showValue(unsigned long long v) { return std::to_string(v) + "ull"; }
inline std::string showValue(double v) { char b[64]; if (v == 0) v = 0; snprintf(b, sizeof b, "%a", v); return b; }
inline std::string showValue(const QString &v) { return "s:" + v.hex(); }
inline std::string showValue(const QStringList &v) { std::string o = "["; for (auto &s : v) o += s.hex() + ","; return o + "]"; }
inline std::string showValue(const QVariant &v) { return "v" + std::to_string(int(v.k)) + ":" + std::to_string(v.i) + ":" + showValue(v.dbl) + ":" + v.s.hex(); }
inline std::string showValue(const QObject *o) { return o ? "@" + o->vname : std::string("@null"); }
template <typename E, std::enable_if_t<std::is_enum_v<E>, int> = 0>
std::string showValue(E e) { return "e" + std::to_string(static_cast<long long>(e)); }
template <typename T, typename = void> struct HasVShow : std::false_type {};
template <typename T> struct HasVShow<T, std::void_t<decltype(std::declval<const T &>().vshow())>> : std::true_type {};
template <typename T, std::enable_if_t<std::is_class_v<T> && !std::is_base_of_v<QObject, T>, int> = 0>
std::string showValue(const T &v) {
    if constexpr (HasVShow<T>::value) return v.vshow(); else return "<gadget>";
}
}  // namespace verif
