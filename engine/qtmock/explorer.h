// Explicit-state explorer over change histories (C02), executed on the real generated code.
// A state = (valuation of the properties the program reads, implementation state of the generated
// support object: observer slots + live connections).  Transitions = property changes through the
// model's setters (which emit the notify signal iff the value changed).  Live C++ objects cannot
// be copied, so a state is represented by the history that reaches it and is rebuilt by replaying
// that history on fresh objects (breadth first => the first counterexample is a shortest one).
#pragma once
#include <deque>
#include <map>
#include <string>
#include <vector>

namespace verif {

struct Event {
    int prop;    // index into the property table
    int value;   // domain index to set, or -1 = "next value of the domain"
};

struct Spec {
    std::vector<int> domsize;            // per property
    std::vector<const char *> expected;  // per valuation index: rendered value, or nullptr = undefined
    std::vector<Event> events;
    int depth;
    std::vector<std::string> propnames;
};

inline long long encode(const Spec &s, const std::vector<int> &v) {
    long long idx = 0;
    for (size_t i = 0; i < v.size(); ++i) idx = idx * s.domsize[i] + v[i];
    return idx;
}

inline std::string showVal(const Spec &s, const std::vector<int> &v) {
    std::string o;
    for (size_t i = 0; i < v.size(); ++i) o += (i ? "," : "") + s.propnames[i] + "=" + std::to_string(v[i]);
    return o;
}

// World must provide: World(); void apply(int prop, int domidx); void setup(); std::string target();
// std::string implState(); long connections();
template <typename World>
void explore(const char *pid, const Spec &spec) {
    struct Node { std::vector<int> init; std::vector<Event> hist; std::vector<int> cur; };
    std::map<std::string, int> seen;
    std::deque<Node> frontier;
    long states = 0, transitions = 0, histories = 0, pruned = 0, violations = 0, target_changes = 0,
         reattach = 0, max_conn = 0, depth_cut = 0, max_depth = 0;
    std::string first_violation;

    auto run = [&](const Node &n, const Event *extra, std::vector<int> &cur, std::string &key, std::string &target,
                   std::string &why) -> bool {
        World w;
        for (size_t i = 0; i < n.init.size(); ++i) w.apply(int(i), n.init[i]);
        cur = n.init;
        try {
            w.setup();
            auto step = [&](const Event &e) {
                int nv = e.value >= 0 ? e.value : (cur[e.prop] + 1) % spec.domsize[e.prop];
                cur[e.prop] = nv;
                w.apply(e.prop, nv);
            };
            for (const Event &e : n.hist) step(e);
            if (extra) {
                std::string before = w.implState();
                std::string tb = w.target();
                step(*extra);
                if (w.implState() != before) ++reattach;
                if (w.target() != tb) ++target_changes;
            }
            target = w.target();
            key = std::to_string(encode(spec, cur)) + "#" + w.implState();
            long c = w.connections();
            if (c > max_conn) max_conn = c;
        } catch (const std::exception &e) {
            why = std::string("exception: ") + e.what();
            return false;
        }
        return true;
    };

    auto report = [&](const Node &n, const Event *extra, const std::vector<int> &cur, const std::string &exp,
                      const std::string &got) {
        ++violations;
        if (!first_violation.empty()) return;
        std::string h;
        for (const Event &e : n.hist) h += spec.propnames[e.prop] + ":" + std::to_string(e.value) + " ";
        if (extra) h += spec.propnames[extra->prop] + ":" + std::to_string(extra->value) + " ";
        first_violation = "init{" + showVal(spec, n.init) + "} events{" + h + "} now{" + showVal(spec, cur) +
                          "} expected=" + exp + " got=" + got;
    };

    // initial states: every valuation in which the expression is defined
    std::vector<int> v(spec.domsize.size(), 0);
    while (true) {
        long long idx = encode(spec, v);
        if (spec.expected[idx]) {
            Node n{v, {}, v};
            std::vector<int> cur; std::string key, target, why;
            ++histories;
            if (!run(n, nullptr, cur, key, target, why)) report(n, nullptr, v, spec.expected[idx], why);
            else if (target != spec.expected[idx]) report(n, nullptr, v, spec.expected[idx], target + " (after setup)");
            else if (!seen.count(key)) { seen[key] = 0; ++states; frontier.push_back(n); }
        }
        size_t i = v.size();
        while (i > 0) { --i; if (++v[i] < spec.domsize[i]) break; v[i] = 0; if (i == 0) { i = size_t(-1); break; } }
        if (i == size_t(-1) || v.empty()) break;
    }
    while (!frontier.empty()) {
        Node n = frontier.front();
        frontier.pop_front();
        if (int(n.hist.size()) > max_depth) max_depth = long(n.hist.size());
        if (int(n.hist.size()) >= spec.depth) { ++depth_cut; continue; }   // unexpanded frontier state
        for (const Event &e : spec.events) {
            std::vector<int> after = n.cur;
            after[e.prop] = e.value >= 0 ? e.value : (after[e.prop] + 1) % spec.domsize[e.prop];
            if (after == n.cur) continue;                       // no change, no signal
            long long idx = encode(spec, after);
            if (!spec.expected[idx]) { ++pruned; continue; }   // undefined: pruned before applying
            std::vector<int> cur; std::string key, target, why;
            ++transitions; ++histories;
            if (!run(n, &e, cur, key, target, why)) { report(n, &e, after, spec.expected[idx], why); continue; }
            if (target != spec.expected[idx]) { report(n, &e, after, spec.expected[idx], target); continue; }
            int d = int(n.hist.size()) + 1;
            auto it = seen.find(key);
            if (it == seen.end() || d < it->second) {
                if (it == seen.end()) ++states;
                seen[key] = d;
                Node m{n.init, n.hist, cur};
                m.hist.push_back(e);
                frontier.push_back(m);
            }
        }
    }
    std::printf("%s|summary|states=%ld transitions=%ld histories=%ld pruned=%ld violations=%ld target_changes=%ld reattach=%ld max_connections=%ld depth_cut=%ld max_depth=%ld\n",
                pid, states, transitions, histories, pruned, violations, target_changes, reattach, max_conn, depth_cut, max_depth);
    if (!first_violation.empty()) std::printf("%s|violation|%s\n", pid, first_violation.c_str());
}

}  // namespace verif
