//! `typemap` sub-command (C17): exhaustive enumeration of small class graphs, every lookup
//! compared with plain reachability computed by the harness.
//!
//! Alphabet: N classes C0..C(N-1); the ordered public super list of each class is any sequence
//! of length <= 2 over {C0..C(N-1), Missing (unresolvable), En (an enum, i.e. not a class)}.
//! Declarations: property `p`, method `m` (two overloads plus neighbours `l`, `n` in the sorted
//! method table, and `la`, `lB`, `Lz` whose byte order and case-folded order differ), nested enum `E { V, V<i> }` are placed on every subset of the classes.
//! Graphs are built with `metatype::Class` values exactly as user-supplied metatypes would be.

use qmluic::metatype;
use qmluic::typemap::{Class, ModuleData, ModuleId, NamedType, TypeMap, TypeSpace};
use serde_json::{json, Value};
use std::collections::BTreeMap;
use std::sync::atomic::{AtomicBool, AtomicU64, Ordering};
use std::sync::{Arc, Mutex};
use std::time::Duration;

#[derive(Clone, Copy, PartialEq, Eq, Debug)]
enum Sym {
    Cls(usize),
    /// protected / private inheritance from class i: not an edge of the public class graph
    Prot(usize),
    Priv(usize),
    Missing,
    NotAClass,
}

struct Space {
    n: usize,
    syms: Vec<Sym>,
    lists: Vec<Vec<Sym>>, // all super lists of length <= max_supers
    /// third alphabet: class Ci lives in its own module mi; which modules mi imports is part of the
    /// enumerated graph (a super name resolves only in the class's own module and its imports)
    modules: bool,
}

impl Space {
    fn new(n: usize, max_supers: usize, access: bool, modules: bool) -> Self {
        let mut syms: Vec<Sym> = (0..n).map(Sym::Cls).collect();
        if modules {
            // classes only; dangling references arise from missing imports
        } else if access {
            // second alphabet: every edge public, protected or private (no dangling names)
            syms.extend((0..n).map(Sym::Prot));
            syms.extend((0..n).map(Sym::Priv));
        } else {
            syms.push(Sym::Missing);
            syms.push(Sym::NotAClass);
        }
        let mut lists = vec![vec![]];
        let mut frontier = vec![vec![]];
        for _ in 0..max_supers {
            let mut next = vec![];
            for l in &frontier {
                for &s in &syms {
                    let mut l2: Vec<Sym> = l.clone();
                    l2.push(s);
                    next.push(l2);
                }
            }
            lists.extend(next.iter().cloned());
            frontier = next;
        }
        Space { n, syms, lists, modules }
    }
    fn import_configs(&self) -> u64 {
        if self.modules {
            1u64 << (self.n * (self.n - 1))
        } else {
            1
        }
    }
    fn graphs(&self) -> u64 {
        (self.lists.len() as u64).pow(self.n as u32) * self.import_configs()
    }
    /// does module i import module j (i != j)?
    fn imports(&self, g: u64, i: usize, j: usize) -> bool {
        if !self.modules {
            return true;
        }
        let bits = g % self.import_configs();
        let k = i * (self.n - 1) + if j < i { j } else { j - 1 };
        bits >> k & 1 == 1
    }
    fn decode(&self, g: u64) -> Vec<&Vec<Sym>> {
        let mut g = g / self.import_configs();
        let base = self.lists.len() as u64;
        let mut out = Vec::with_capacity(self.n);
        for _ in 0..self.n {
            out.push(&self.lists[(g % base) as usize]);
            g /= base;
        }
        out
    }
}

fn sym_name(s: Sym) -> String {
    match s {
        Sym::Cls(i) | Sym::Prot(i) | Sym::Priv(i) => format!("C{i}"),
        Sym::Missing => "Missing".to_owned(),
        Sym::NotAClass => "En".to_owned(),
    }
}

fn describe(sp: &Space, g: u64, mask: u32) -> String {
    let supers = sp.decode(g);
    let mut parts = vec![];
    for (i, l) in supers.iter().enumerate() {
        let decl = if mask >> i & 1 == 1 { " {p,m,E}" } else { "" };
        let imp = if sp.modules {
            format!(
                " in m{i} importing [{}]",
                (0..sp.n)
                    .filter(|&j| j != i && sp.imports(g, i, j))
                    .map(|j| format!("m{j}"))
                    .collect::<Vec<_>>()
                    .join(",")
            )
        } else {
            String::new()
        };
        parts.push(format!(
            "C{i}{imp}: [{}]{decl}",
            l.iter()
                .map(|&s| match s {
                    Sym::Prot(_) => format!("protected {}", sym_name(s)),
                    Sym::Priv(_) => format!("private {}", sym_name(s)),
                    _ => sym_name(s),
                })
                .collect::<Vec<_>>()
                .join(", ")
        ));
    }
    parts.join("; ")
}

fn build_type_map(sp: &Space, g: u64, supers: &[&Vec<Sym>], mask: u32) -> TypeMap {
    let mut type_map = TypeMap::with_primitive_types();
    let mut md = ModuleData::with_builtins();
    let mut classes = Vec::with_capacity(sp.n);
    for (i, l) in supers.iter().enumerate() {
        let mut c = metatype::Class::with_supers(format!("C{i}"), l.iter().map(|&s| sym_name(s)));
        for (spec, &s) in c.super_classes.iter_mut().zip(l.iter()) {
            match s {
                Sym::Prot(_) => spec.access = metatype::AccessSpecifier::Protected,
                Sym::Priv(_) => spec.access = metatype::AccessSpecifier::Private,
                _ => {}
            }
        }
        {
            // every class has its own property `r` whose NOTIFY names signal `n`: the signal is found exactly
            // when the class or a public ancestor declares `n`
            let mut r = metatype::Property::new("r", "int");
            r.read = Some("r".to_owned());
            r.notify = Some("n".to_owned());
            c.properties.push(r);
        }
        if mask >> i & 1 == 1 {
            let mut p = metatype::Property::new("p", "int");
            p.read = Some("p".to_owned());
            // the attribute flags of a declaration differ from class to class: none of them makes a declared
            // property any less declared
            p.scriptable = i % 2 == 0;
            p.designable = i % 3 != 1;
            p.stored = i % 2 == 1;
            p.user = i % 3 == 0;
            p.constant = i % 2 == 1;
            p.r#final = i % 3 == 2;
            p.required = i % 2 == 0;
            if i % 2 == 1 {
                p.read = None;
                p.member = Some("m_p".to_owned());
            }
            c.properties.push(p);
            c.methods.push(metatype::Method::nullary("l", "void"));
            c.slots.push(metatype::Method::nullary("m", "void"));
            c.slots
                .push(metatype::Method::with_argument_types("m", "void", ["int"]));
            c.signals.push(metatype::Method::nullary("n", "void"));
            // names whose byte order and case-folded order differ (lB < la, Lz < l byte-wise)
            c.methods.push(metatype::Method::nullary("la", "void"));
            c.slots.push(metatype::Method::nullary("lB", "void"));
            c.signals.push(metatype::Method::nullary("Lz", "void"));
            // a scoped enum (its variants are not visible unqualified) before or after the unscoped one
            let mut scoped = metatype::Enum::with_values("S", ["SV".to_owned(), format!("SV{i}")]);
            scoped.is_class = true;
            if i % 2 == 0 {
                c.enums.push(scoped.clone());
            }
            c.enums.push(metatype::Enum::with_values(
                "E",
                ["V".to_owned(), format!("V{i}")],
            ));
            if i % 2 == 1 {
                c.enums.push(scoped);
            }
            c.enums.push(metatype::Enum::with_values("T", [format!("TV{i}")]));
        }
        classes.push(c);
    }
    if sp.modules {
        for (i, c) in classes.into_iter().enumerate() {
            let mut mi = ModuleData::with_builtins();
            for j in 0..sp.n {
                if j != i && sp.imports(g, i, j) {
                    mi.import_module(ModuleId::Named(&format!("m{j}")));
                }
            }
            mi.extend([c]);
            type_map.insert_module(ModuleId::Named(&format!("m{i}")), mi);
        }
        return type_map;
    }
    md.extend(classes);
    md.extend([metatype::Enum::with_values("En", ["EnA", "EnB"])]);
    type_map.insert_module(ModuleId::Named("m"), md);
    type_map
}

/// Reference model: plain reachability over resolvable public class edges.
struct Model {
    reach: Vec<Vec<bool>>, // reflexive-transitive
    err_reach: Vec<bool>,  // an unresolvable / non-class super is reachable
}

fn model(sp: &Space, g: u64, supers: &[&Vec<Sym>]) -> Model {
    let n = sp.n;
    let mut reach = vec![vec![false; n]; n];
    let mut has_err = vec![false; n];
    for i in 0..n {
        reach[i][i] = true;
        for &s in supers[i].iter() {
            match s {
                Sym::Cls(j) if j == i || sp.imports(g, i, j) => reach[i][j] = true,
                Sym::Cls(_) => has_err[i] = true, // the name is not visible from this class's module
                Sym::Prot(_) | Sym::Priv(_) => {} // not public: neither an edge nor an error
                _ => has_err[i] = true,
            }
        }
    }
    for k in 0..n {
        for i in 0..n {
            for j in 0..n {
                if reach[i][k] && reach[k][j] {
                    reach[i][j] = true;
                }
            }
        }
    }
    let err_reach = (0..n)
        .map(|i| (0..n).any(|j| reach[i][j] && has_err[j]))
        .collect();
    Model { reach, err_reach }
}

#[derive(Default)]
struct Stats {
    graphs: u64,
    cases: u64,
    queries: u64,
    outcomes: BTreeMap<String, u64>,
    cyclic_graphs: u64,
    dangling_graphs: u64,
    diamond_like: u64,
    violations: BTreeMap<String, (u64, String)>, // signature -> (count, first witness)
}

impl Stats {
    fn outcome(&mut self, k: &str) {
        *self.outcomes.entry(k.to_owned()).or_insert(0) += 1;
    }
    fn violation(&mut self, sig: String, witness: impl FnOnce() -> String) {
        let e = self.violations.entry(sig).or_insert_with(|| (0, String::new()));
        if e.0 == 0 {
            e.1 = witness();
        }
        e.0 += 1;
    }
    fn merge(&mut self, o: Stats) {
        self.graphs += o.graphs;
        self.cases += o.cases;
        self.queries += o.queries;
        self.cyclic_graphs += o.cyclic_graphs;
        self.dangling_graphs += o.dangling_graphs;
        self.diamond_like += o.diamond_like;
        for (k, v) in o.outcomes {
            *self.outcomes.entry(k).or_insert(0) += v;
        }
        for (k, (c, w)) in o.violations {
            let e = self.violations.entry(k).or_insert_with(|| (0, w.clone()));
            e.0 += c;
        }
    }
}

fn class_index(c: &Class) -> Option<usize> {
    c.name().strip_prefix('C').and_then(|s| s.parse().ok())
}

/// Judges one name lookup. `found` = Some(Ok(index of declaring class)) | Some(Err) | None.
#[allow(clippy::too_many_arguments)]
fn judge_lookup(
    st: &mut Stats,
    kind: &str,
    x: usize,
    found: Option<Result<Option<usize>, String>>,
    declared: &[bool],
    m: &Model,
    wit: &dyn Fn() -> String,
) {
    st.queries += 1;
    let n = declared.len();
    let d: Vec<usize> = (0..n).filter(|&j| m.reach[x][j] && declared[j]).collect();
    match found {
        Some(Ok(owner)) => {
            st.outcome(&format!("{kind}:found"));
            if d.is_empty() {
                st.violation(format!("lookup({kind}):found-but-undeclared"), || {
                    format!("query C{x} in {}", wit())
                });
            } else if declared[x] && owner != Some(x) {
                st.violation(
                    format!("lookup({kind}):own-declaration-not-preferred"),
                    || format!("query C{x} got owner {owner:?} in {}", wit()),
                );
            } else if !owner.map(|o| d.contains(&o)).unwrap_or(false) {
                st.violation(format!("lookup({kind}):wrong-declaring-class"), || {
                    format!("query C{x} got owner {owner:?} in {}", wit())
                });
            }
        }
        Some(Err(e)) => {
            st.outcome(&format!("{kind}:error"));
            if !m.err_reach[x] {
                st.violation(format!("lookup({kind}):error-on-clean-graph"), || {
                    format!("query C{x} got error '{e}' in {}", wit())
                });
            }
        }
        None => {
            st.outcome(&format!("{kind}:none"));
            if !d.is_empty() {
                st.violation(format!("lookup({kind}):missing-but-declared"), || {
                    format!("query C{x} in {}", wit())
                });
            }
        }
    }
}

fn check_case(sp: &Space, g: u64, mask: u32, st: &mut Stats) {
    let supers = sp.decode(g);
    let n = sp.n;
    let m = model(sp, g, &supers);
    let tm = build_type_map(sp, g, &supers, mask);
    let module_names: Vec<String> = (0..n)
        .map(|i| if sp.modules { format!("m{i}") } else { "m".to_owned() })
        .collect();
    let module = tm.get_module(ModuleId::Named(&module_names[0])).expect("module");
    let classes: Vec<Class> = (0..n)
        .map(|i| {
            let mo = tm.get_module(ModuleId::Named(&module_names[i])).expect("module");
            match mo.get_type(&format!("C{i}")) {
                Some(Ok(NamedType::Class(c))) => c,
                other => panic!("class C{i} not found: {other:?}"),
            }
        })
        .collect();
    let declared: Vec<bool> = (0..n).map(|i| mask >> i & 1 == 1).collect();
    let none_declared = vec![false; n];
    let wit = || describe(sp, g, mask);
    st.cases += 1;

    for x in 0..n {
        // derives-from: exactly reflexive-transitive public inheritance
        for y in 0..n {
            st.queries += 1;
            let got = classes[x].is_derived_from(&classes[y]);
            let want = m.reach[x][y];
            st.outcome(if got { "derived:true" } else { "derived:false" });
            if got != want {
                let sig = if got {
                    "is_derived_from:false-positive".to_owned()
                } else if m.err_reach[x] {
                    "is_derived_from:false-negative:unresolvable-super-reachable".to_owned()
                } else {
                    "is_derived_from:false-negative:clean-graph".to_owned()
                };
                st.violation(sig, || format!("C{x} derives from C{y}? got {got} in {}", wit()));
            }
        }
        // property
        let r = classes[x]
            .get_property("p")
            .map(|r| r.map(|p| class_index(p.object_class())).map_err(|e| e.to_string()));
        judge_lookup(st, "property", x, r, &declared, &m, &wit);
        let r = classes[x]
            .get_property("q")
            .map(|r| r.map(|p| class_index(p.object_class())).map_err(|e| e.to_string()));
        judge_lookup(st, "property-undeclared", x, r, &none_declared, &m, &wit);
        // the NOTIFY signal of the class's own property `r`: looked up like a method (ancestors included)
        if let Some(Ok(pr)) = classes[x].get_property("r") {
            if class_index(pr.object_class()) != Some(x) {
                st.violation("lookup(property-r):own-declaration-not-preferred".to_owned(), || {
                    format!("query C{x} in {}", wit())
                });
            }
            let r = match pr.notify_signal() {
                None => None,
                Some(Ok(sig)) => Some(Ok(class_index(sig.object_class()))),
                Some(Err(e)) => {
                    let text = e.to_string();
                    if text.contains("notify") {
                        None // "no such signal": the not-found answer of this query
                    } else {
                        Some(Err(text))
                    }
                }
            };
            judge_lookup(st, "notify-signal", x, r, &declared, &m, &wit);
        } else if !m.err_reach[x] {
            st.violation("lookup(property-r):own-property-not-found".to_owned(), || {
                format!("query C{x} in {}", wit())
            });
        }
        // methods (first, overloaded middle, last of the sorted table, and an absent name)
        for name in ["l", "m", "n", "la", "lB", "Lz", "k", "o", "lb", "LA", "lz", "M"] {
            let r = classes[x].get_public_method(name).map(|r| {
                r.map(|ms| {
                    let v = ms.into_vec();
                    let owners: Vec<_> = v.iter().map(|m| class_index(m.object_class())).collect();
                    let expect_count = if name == "m" { 2 } else { 1 };
                    if v.len() != expect_count || v.iter().any(|m| m.name() != name) {
                        Some(usize::MAX) // wrong overload set: flagged as wrong-declaring-class
                    } else if owners.windows(2).all(|w| w[0] == w[1]) {
                        owners[0]
                    } else {
                        Some(usize::MAX)
                    }
                })
                .map_err(|e| e.to_string())
            });
            let decl = if matches!(name, "l" | "m" | "n" | "la" | "lB" | "Lz") {
                &declared
            } else {
                &none_declared
            };
            judge_lookup(st, &format!("method-{name}"), x, r, decl, &m, &wit);
        }
        // nested enum by type name
        let r = classes[x].get_type("E").map(|r| {
            r.map(|t| match t {
                NamedType::Enum(en) => en
                    .qualified_cxx_name()
                    .strip_suffix("::E")
                    .and_then(|s| s.strip_prefix('C'))
                    .and_then(|s| s.parse().ok()),
                _ => Some(usize::MAX),
            })
            .map_err(|e| e.to_string())
        });
        judge_lookup(st, "nested-enum", x, r, &declared, &m, &wit);
        // enum by shared variant name
        let r = classes[x].get_enum_by_variant("V").map(|r| {
            r.map(|en| {
                if !en.contains_variant("V") {
                    return Some(usize::MAX);
                }
                en.qualified_cxx_name()
                    .strip_suffix("::E")
                    .and_then(|s| s.strip_prefix('C'))
                    .and_then(|s| s.parse().ok())
            })
            .map_err(|e| e.to_string())
        });
        judge_lookup(st, "variant-shared", x, r, &declared, &m, &wit);
        // enum by the variant only class i lists: resolves to exactly Ci::E
        for i in 0..n {
            let v = format!("V{i}");
            let mut only_i = vec![false; n];
            only_i[i] = declared[i];
            let r = classes[x].get_enum_by_variant(&v).map(|r| {
                r.map(|en| {
                    if !en.contains_variant(&v) {
                        return Some(usize::MAX);
                    }
                    en.qualified_cxx_name()
                        .strip_suffix("::E")
                        .and_then(|s| s.strip_prefix('C'))
                        .and_then(|s| s.parse().ok())
                })
                .map_err(|e| e.to_string())
            });
            judge_lookup(st, "variant-unique", x, r, &only_i, &m, &wit);
        }
        // common base
        for y in 0..n {
            st.queries += 1;
            let inter: Vec<usize> = (0..n).filter(|&j| m.reach[x][j] && m.reach[y][j]).collect();
            match classes[x].common_base_class(&classes[y]) {
                Some(Ok(c)) => {
                    st.outcome("common:found");
                    let ci = class_index(&c);
                    if !ci.map(|i| inter.contains(&i)).unwrap_or(false) {
                        st.violation("common_base:not-an-ancestor-of-both".to_owned(), || {
                            format!("C{x},C{y} -> {ci:?} in {}", wit())
                        });
                    }
                }
                Some(Err(e)) => {
                    st.outcome("common:error");
                    if !(m.err_reach[x] || m.err_reach[y]) {
                        st.violation("common_base:error-on-clean-graph".to_owned(), || {
                            format!("C{x},C{y} -> error '{e}' in {}", wit())
                        });
                    }
                }
                None => {
                    st.outcome("common:none");
                    if !inter.is_empty() {
                        st.violation("common_base:none-but-exists".to_owned(), || {
                            format!("C{x},C{y} in {}", wit())
                        });
                    }
                }
            }
        }
    }
    if sp.modules {
        return;
    }
    // module-level enum variant resolves to the enum that lists it
    st.queries += 2;
    match module.get_enum_by_variant("EnB") {
        Some(Ok(en)) if en.name() == "En" && en.contains_variant("EnB") => {}
        other => st.violation("module-variant:wrong".to_owned(), || {
            format!("EnB -> {other:?}")
        }),
    }
    if module.get_enum_by_variant("V").is_some() {
        st.violation("module-variant:leaked-from-class".to_owned(), wit);
    }
}

pub fn run(args: &[String]) -> i32 {
    // args: --n N [--max-supers K] [--threads T] [--masks all|single] [--stride S --offset O]
    let mut n = 3usize;
    let mut max_supers = 2usize;
    let mut threads = 16usize;
    let mut stall_secs = 20u64;
    let mut access = false;
    let mut modules = false;
    let mut i = 0;
    while i < args.len() {
        match args[i].as_str() {
            "--n" => n = args[i + 1].parse().unwrap(),
            "--max-supers" => max_supers = args[i + 1].parse().unwrap(),
            "--threads" => threads = args[i + 1].parse().unwrap(),
            "--stall-secs" => stall_secs = args[i + 1].parse().unwrap(),
            "--alphabet" => {
                access = args[i + 1] == "access";
                modules = args[i + 1] == "modules";
            }
            o => {
                eprintln!("unknown option {o}");
                return 2;
            }
        }
        i += 2;
    }
    let sp = Arc::new(Space::new(n, max_supers, access, modules));
    let total = sp.graphs();
    let nmask = 1u32 << n;
    let progress: Arc<Vec<AtomicU64>> = Arc::new((0..threads).map(|_| AtomicU64::new(0)).collect());
    let current: Arc<Vec<AtomicU64>> =
        Arc::new((0..threads).map(|_| AtomicU64::new(u64::MAX)).collect());
    let done = Arc::new(AtomicBool::new(false));
    let merged = Arc::new(Mutex::new(Stats::default()));

    // watchdog: a thread that makes no progress for `stall_secs` is reported as a hang
    {
        let progress = progress.clone();
        let current = current.clone();
        let done = done.clone();
        let sp = sp.clone();
        std::thread::spawn(move || {
            let mut last: Vec<u64> = vec![0; progress.len()];
            let mut still: Vec<u64> = vec![0; progress.len()];
            loop {
                std::thread::sleep(Duration::from_secs(1));
                if done.load(Ordering::Relaxed) {
                    return;
                }
                for t in 0..progress.len() {
                    let p = progress[t].load(Ordering::Relaxed);
                    let cur = current[t].load(Ordering::Relaxed);
                    if cur == u64::MAX - 1 {
                        continue; // finished
                    }
                    if p == last[t] {
                        still[t] += 1;
                    } else {
                        still[t] = 0;
                        last[t] = p;
                    }
                    if still[t] >= stall_secs && cur != u64::MAX {
                        let g = cur >> 8;
                        let mask = (cur & 0xff) as u32;
                        let out = json!({"hang": true, "witness": describe(&sp, g, mask),
                                         "signature": "hang:lookup-does-not-terminate"});
                        println!("{}", out);
                        std::process::exit(0);
                    }
                }
            }
        });
    }

    let chunk = total.div_ceil(threads as u64);
    let mut handles = vec![];
    for t in 0..threads {
        let sp = sp.clone();
        let progress = progress.clone();
        let current = current.clone();
        let merged = merged.clone();
        let lo = t as u64 * chunk;
        let hi = ((t as u64 + 1) * chunk).min(total);
        handles.push(
            std::thread::Builder::new()
                .stack_size(64 << 20)
                .spawn(move || {
                    let mut st = Stats::default();
                    for g in lo..hi {
                        let supers = sp.decode(g);
                        let m = model(&sp, g, &supers);
                        st.graphs += 1;
                        let n = sp.n;
                        if (0..n).any(|i| (0..n).any(|j| i != j && m.reach[i][j] && m.reach[j][i]))
                            || (0..n).any(|i| supers[i].contains(&Sym::Cls(i)))
                        {
                            st.cyclic_graphs += 1;
                        }
                        if m.err_reach.iter().any(|&b| b) {
                            st.dangling_graphs += 1;
                        }
                        if supers.iter().any(|l| {
                            l.len() == 2 && matches!((l[0], l[1]), (Sym::Cls(a), Sym::Cls(b)) if a != b)
                        }) {
                            st.diamond_like += 1;
                        }
                        for mask in 0..nmask {
                            current[t].store(g << 8 | mask as u64, Ordering::Relaxed);
                            check_case(&sp, g, mask, &mut st);
                            progress[t].fetch_add(1, Ordering::Relaxed);
                        }
                    }
                    current[t].store(u64::MAX - 1, Ordering::Relaxed);
                    merged.lock().unwrap().merge(st);
                })
                .unwrap(),
        );
    }
    let mut crashed = 0;
    for h in handles {
        if h.join().is_err() {
            crashed += 1;
        }
    }
    done.store(true, Ordering::Relaxed);
    let st = merged.lock().unwrap();
    let viol: Vec<Value> = st
        .violations
        .iter()
        .map(|(k, (c, w))| json!({"signature": k, "count": c, "witness": w}))
        .collect();
    let samples: Vec<String> = [0u64, total / 7, total / 3, total / 2, total - 1]
        .iter()
        .map(|&g| describe(&sp, g, (g % nmask as u64) as u32))
        .collect();
    let out = json!({
        "n": n, "max_supers": max_supers, "alphabet": if access { "access" } else if modules { "modules" } else { "dangling" }, "symbols": sp.syms.len(), "super_lists": sp.lists.len(),
        "graphs": st.graphs, "graphs_total": total, "cases": st.cases, "queries": st.queries,
        "cyclic_graphs": st.cyclic_graphs, "dangling_graphs": st.dangling_graphs,
        "multi_super_graphs": st.diamond_like,
        "outcomes": st.outcomes, "violations": viol, "crashed_threads": crashed,
        "samples": samples,
    });
    println!("{}", out);
    0
}
