//! `color` sub-command (C19): exhaustive sweeps of `qmluic::color::Color::from_str` against an
//! oracle written from the property statement (alpha first, short digits doubled, SVG keywords
//! case-insensitively, `transparent`; everything else rejected).
//!
//! The keyword table is *not* compiled in: it is read from a JSON file maintained by the
//! verification framework (independent of lib/src/color.rs).

use qmluic::color::Color;
use serde_json::{json, Value};
use std::collections::HashMap;
use std::fs;
use std::str::FromStr;
use std::sync::atomic::{AtomicU64, Ordering};
use std::sync::Mutex;

type Rgba = (u8, u8, u8, u8);

fn hexval(c: u8) -> Option<u8> {
    match c {
        b'0'..=b'9' => Some(c - b'0'),
        b'a'..=b'f' => Some(c - b'a' + 10),
        b'A'..=b'F' => Some(c - b'A' + 10),
        _ => None,
    }
}

/// The oracle. `None` = must be rejected.
fn expected(s: &str, table: &HashMap<String, (u8, u8, u8)>) -> Option<Rgba> {
    let b = s.as_bytes();
    if let Some(h) = b.strip_prefix(b"#") {
        let mut d = Vec::with_capacity(h.len());
        for &c in h {
            d.push(hexval(c)?);
        }
        let dbl = |x: u8| x * 16 + x;
        let two = |x: u8, y: u8| x * 16 + y;
        return match d.len() {
            3 => Some((dbl(d[0]), dbl(d[1]), dbl(d[2]), 255)),
            4 => Some((dbl(d[1]), dbl(d[2]), dbl(d[3]), dbl(d[0]))),
            6 => Some((two(d[0], d[1]), two(d[2], d[3]), two(d[4], d[5]), 255)),
            8 => Some((
                two(d[2], d[3]),
                two(d[4], d[5]),
                two(d[6], d[7]),
                two(d[0], d[1]),
            )),
            _ => None,
        };
    }
    if !s.is_ascii() {
        return None;
    }
    let lower = s.to_ascii_lowercase();
    if lower == "transparent" {
        return Some((0, 0, 0, 0));
    }
    table.get(&lower).map(|&(r, g, b)| (r, g, b, 255))
}

fn observed(s: &str) -> Option<Rgba> {
    match Color::from_str(s) {
        Ok(Color::Rgb8(c)) => Some((c.red, c.green, c.blue, 255)),
        Ok(Color::Rgba8(c)) => Some((c.red, c.green, c.blue, c.alpha)),
        Err(_) => None,
    }
}

struct Tally {
    evaluated: AtomicU64,
    accepted: AtomicU64,
    rejected: AtomicU64,
    violations: Mutex<Vec<Value>>,
    nviol: AtomicU64,
}

impl Tally {
    fn new() -> Self {
        Tally {
            evaluated: AtomicU64::new(0),
            accepted: AtomicU64::new(0),
            rejected: AtomicU64::new(0),
            violations: Mutex::new(vec![]),
            nviol: AtomicU64::new(0),
        }
    }
}

struct Local<'a> {
    t: &'a Tally,
    table: &'a HashMap<String, (u8, u8, u8)>,
    n: u64,
    acc: u64,
    rej: u64,
}

impl<'a> Local<'a> {
    fn new(t: &'a Tally, table: &'a HashMap<String, (u8, u8, u8)>) -> Self {
        Local {
            t,
            table,
            n: 0,
            acc: 0,
            rej: 0,
        }
    }
    #[inline]
    fn check(&mut self, s: &str) {
        let e = expected(s, self.table);
        let o = observed(s);
        self.n += 1;
        if e.is_some() {
            self.acc += 1;
        } else {
            self.rej += 1;
        }
        if e != o {
            let k = self.t.nviol.fetch_add(1, Ordering::Relaxed);
            if k < 50 {
                self.t.violations.lock().unwrap().push(json!({
                    "input": s,
                    "expected": e.map(|x| vec![x.0, x.1, x.2, x.3]),
                    "observed": o.map(|x| vec![x.0, x.1, x.2, x.3]),
                }));
            }
        }
    }
}

impl Drop for Local<'_> {
    fn drop(&mut self) {
        self.t.evaluated.fetch_add(self.n, Ordering::Relaxed);
        self.t.accepted.fetch_add(self.acc, Ordering::Relaxed);
        self.t.rejected.fetch_add(self.rej, Ordering::Relaxed);
    }
}

/// All strings "#" + `len` symbols over `alphabet`, split over `threads` by first symbols.
fn sweep_fixed(
    t: &Tally,
    table: &HashMap<String, (u8, u8, u8)>,
    prefix: &str,
    alphabet: &[u8],
    len: usize,
    threads: usize,
) {
    let total: u64 = (alphabet.len() as u64).pow(len as u32);
    let chunk = total.div_ceil(threads as u64);
    std::thread::scope(|sc| {
        for th in 0..threads as u64 {
            let lo = th * chunk;
            let hi = ((th + 1) * chunk).min(total);
            if lo >= hi {
                continue;
            }
            sc.spawn(move || {
                let mut l = Local::new(t, table);
                let mut buf = vec![0u8; prefix.len() + len];
                buf[..prefix.len()].copy_from_slice(prefix.as_bytes());
                let base = alphabet.len() as u64;
                for i in lo..hi {
                    let mut x = i;
                    for p in (0..len).rev() {
                        buf[prefix.len() + p] = alphabet[(x % base) as usize];
                        x /= base;
                    }
                    // SAFETY-free: alphabet is ASCII
                    let s = std::str::from_utf8(&buf).unwrap();
                    l.check(s);
                }
            });
        }
    });
}

fn case_variants(t: &Tally, table: &HashMap<String, (u8, u8, u8)>, word: &str, pre: &str, post: &str) {
    let mut l = Local::new(t, table);
    let lw = word.to_ascii_lowercase().into_bytes();
    let idx: Vec<usize> = (0..lw.len())
        .filter(|&i| lw[i].is_ascii_alphabetic())
        .collect();
    let n = idx.len();
    let mut buf = lw.clone();
    for mask in 0u64..(1u64 << n) {
        for (k, &i) in idx.iter().enumerate() {
            buf[i] = if mask >> k & 1 == 1 {
                lw[i].to_ascii_uppercase()
            } else {
                lw[i]
            };
        }
        let w = std::str::from_utf8(&buf).unwrap();
        if pre.is_empty() && post.is_empty() {
            l.check(w);
        } else {
            l.check(&format!("{pre}{w}{post}"));
        }
    }
}

pub fn run(args: &[String]) -> i32 {
    // args: --table F.json --tier quick|thorough [--threads N]
    let mut table_path = String::new();
    let mut tier = "quick".to_owned();
    let mut threads = 16usize;
    let mut i = 0;
    while i < args.len() {
        match args[i].as_str() {
            "--table" => {
                table_path = args[i + 1].clone();
                i += 2;
            }
            "--tier" => {
                tier = args[i + 1].clone();
                i += 2;
            }
            "--threads" => {
                threads = args[i + 1].parse().unwrap();
                i += 2;
            }
            o => {
                eprintln!("unknown option {o}");
                return 2;
            }
        }
    }
    let raw: HashMap<String, Vec<u8>> =
        serde_json::from_str(&fs::read_to_string(&table_path).expect("table")).expect("table json");
    let table: HashMap<String, (u8, u8, u8)> = raw
        .into_iter()
        .map(|(k, v)| (k, (v[0], v[1], v[2])))
        .collect();
    let thorough = tier == "thorough";
    let lower: &[u8] = b"0123456789abcdef";
    let mixed: &[u8] = b"0123456789abcdefABCDEF";
    let mut classes = serde_json::Map::new();
    let mut all_viol: Vec<Value> = vec![];
    let mut total_viol = 0u64;
    let mut run_class = |name: &str, f: &dyn Fn(&Tally)| {
        let t = Tally::new();
        f(&t);
        classes.insert(
            name.to_owned(),
            json!({"evaluated": t.evaluated.load(Ordering::Relaxed),
                   "expected_accept": t.accepted.load(Ordering::Relaxed),
                   "expected_reject": t.rejected.load(Ordering::Relaxed),
                   "violations": t.nviol.load(Ordering::Relaxed)}),
        );
        total_viol += t.nviol.load(Ordering::Relaxed);
        for mut v in t.violations.into_inner().unwrap() {
            v["class"] = json!(name);
            if all_viol.len() < 100 {
                all_viol.push(v);
            }
        }
    };

    run_class("hex3_mixedcase", &|t| sweep_fixed(t, &table, "#", mixed, 3, threads));
    run_class("hex4_mixedcase", &|t| sweep_fixed(t, &table, "#", mixed, 4, threads));
    if thorough {
        run_class("hex6_mixedcase", &|t| sweep_fixed(t, &table, "#", mixed, 6, threads));
        run_class("hex8_lowercase", &|t| sweep_fixed(t, &table, "#", lower, 8, threads));
        run_class("hex8_uppercase", &|t| sweep_fixed(t, &table, "#", b"0123456789ABCDEF", 8, threads));
    } else {
        run_class("hex6_lowercase", &|t| sweep_fixed(t, &table, "#", lower, 6, threads));
        run_class("hex6_uppercase", &|t| sweep_fixed(t, &table, "#", b"0123456789ABCDEF", 6, threads));
        // 8 digits: all 2-digit alpha values x boundary channel bytes, both cases
        run_class("hex8_boundary", &|t| {
            let bytes = ["00", "01", "0f", "10", "7f", "80", "a5", "fe", "ff", "F0", "Aa"];
            let mut l = Local::new(t, &table);
            for a in 0..=255u32 {
                for r in bytes {
                    for g in bytes {
                        for b in bytes {
                            l.check(&format!("#{a:02x}{r}{g}{b}"));
                            l.check(&format!("#{a:02X}{r}{g}{b}"));
                        }
                    }
                }
            }
        });
    }
    // invalid hex lengths (must be rejected): 0,1,2,5,7 and 9..12 digits
    run_class("hex_bad_length_short", &|t| {
        {
            let mut l = Local::new(t, &table);
            l.check("#");
        }
        sweep_fixed(t, &table, "#", mixed, 1, 1);
        sweep_fixed(t, &table, "#", mixed, 2, 1);
        sweep_fixed(t, &table, "#", lower, 5, threads);
    });
    if thorough {
        run_class("hex_bad_length_7", &|t| sweep_fixed(t, &table, "#", lower, 7, threads));
    }
    run_class("hex_bad_length_long", &|t| {
        let mut l = Local::new(t, &table);
        let digs = ["0", "1", "7", "8", "f", "F"];
        for len in [7usize, 9, 10, 11, 12, 13, 16, 17, 32] {
            for d in digs {
                l.check(&format!("#{}", d.repeat(len)));
                for e in digs {
                    // one differing digit at each end
                    let mut s = d.repeat(len);
                    s.replace_range(0..1, e);
                    l.check(&format!("#{s}"));
                    let mut s = d.repeat(len);
                    s.replace_range(len - 1..len, e);
                    l.check(&format!("#{s}"));
                }
            }
        }
    });
    // hex strings with one non-hex / sign / blank character in every position
    run_class("hex_bad_char", &|t| {
        let mut l = Local::new(t, &table);
        for len in [3usize, 4, 6, 8] {
            for pos in 0..len {
                for bad in ["g", "G", "+", "-", " ", "x", "_", ".", "#", "\u{ff10}", "\u{e9}"] {
                    for d in ["0", "a", "F"] {
                        let mut s = d.repeat(len);
                        s.replace_range(pos..pos + 1, bad);
                        l.check(&format!("#{s}"));
                    }
                }
            }
            // valid length reached only by counting a sign or blank
            for d in ["0", "a", "F"] {
                l.check(&format!("#+{}", d.repeat(len - 1)));
                l.check(&format!("#-{}", d.repeat(len - 1)));
                l.check(&format!("# {}", d.repeat(len - 1)));
                l.check(&format!("#{} ", d.repeat(len - 1)));
                l.check(&format!(" #{}", d.repeat(len)));
                l.check(&format!("#{} ", d.repeat(len)));
                l.check(&format!("##{}", d.repeat(len)));
                l.check(&format!("0x{}", d.repeat(len)));
                l.check(&d.repeat(len).to_string());
            }
        }
    });
    // every keyword (and 'transparent') in every letter case
    let mut words: Vec<String> = table.keys().cloned().collect();
    words.sort();
    run_class("keywords_all_cases", &|t| {
        let chunk = words.len().div_ceil(threads);
        std::thread::scope(|sc| {
            for ws in words.chunks(chunk) {
                let table = &table;
                sc.spawn(move || {
                    for w in ws {
                        case_variants(t, table, w, "", "");
                    }
                });
            }
        });
    });
    run_class("transparent_all_cases", &|t| case_variants(t, &table, "transparent", "", ""));
    // keywords decorated with blanks / near misses (must be rejected)
    run_class("keywords_decorated", &|t| {
        let mut l = Local::new(t, &table);
        let mut ws = words.clone();
        ws.push("transparent".to_owned());
        for w in &ws {
            for (pre, post) in [
                (" ", ""), ("", " "), ("\t", ""), ("", "\n"), (" ", " "), ("#", ""), ("", "#"),
                ("", "0"), ("x", ""), ("", "s"), ("", "\u{0}"),
            ] {
                l.check(&format!("{pre}{w}{post}"));
                l.check(&format!("{pre}{}{post}", w.to_ascii_uppercase()));
            }
            // one inner blank, one dropped letter, one doubled letter, non-ASCII look-alikes
            for p in 1..w.len() {
                l.check(&format!("{} {}", &w[..p], &w[p..]));
                l.check(&format!("{}{}", &w[..p - 1], &w[p..]));
                l.check(&format!("{}{}{}", &w[..p], &w[p - 1..p], &w[p..]));
            }
            l.check(&w.replace('k', "\u{212a}")); // KELVIN SIGN lower-cases to 'k' in Unicode
            l.check(&w.replace('s', "\u{17f}")); // LONG S upper-cases to 'S'
            l.check(&w.replace('i', "\u{130}"));
        }
    });
    // all short strings over a hostile alphabet
    let soup: &[u8] = b"#0fgG red+-x";
    let maxlen = if thorough { 5 } else { 4 };
    run_class("short_strings", &|t| {
        {
            let mut l = Local::new(t, &table);
            l.check("");
        }
        for len in 1..=maxlen {
            sweep_fixed(t, &table, "", soup, len, threads);
        }
    });

    let out = json!({"tier": tier, "classes": classes, "violations": total_viol, "witnesses": all_viol,
                     "table_size": table.len()});
    println!("{}", out);
    0
}
