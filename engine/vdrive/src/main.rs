//! vdrive: in-process driver used by the /verif checks.
//!
//! Sub-commands
//!   serve   [--types F.json]... [--metatypes DIR]   JSONL jobs on stdin -> JSONL results on stdout
//!   types   [--types F.json]... [--metatypes DIR]   dump post-tweak class list (JSON)
//!   typemap ...                                     exhaustive class-graph check (C17)
//!   color   ...                                     exhaustive colour-string check (C19)
//!
//! Only the public API of the `qmluic` and `qmluic-cli` crates is used, in the way
//! `tests/common/mod.rs` and `src/main.rs` use it.

mod colorcheck;
mod translate;
mod typemapcheck;

use std::env;
use std::process;

fn main() {
    let args: Vec<String> = env::args().collect();
    if args.len() < 2 {
        eprintln!("usage: vdrive serve|types|typemap|color ...");
        process::exit(2);
    }
    let rest = &args[2..];
    let code = match args[1].as_str() {
        "serve" => run_big_stack(rest.to_vec(), translate::serve),
        "types" => translate::dump_types(rest),
        "typemap" => run_big_stack(rest.to_vec(), |a| typemapcheck::run(a)),
        "color" => colorcheck::run(rest),
        other => {
            eprintln!("unknown sub-command: {other}");
            2
        }
    };
    process::exit(code);
}

/// Runs `f` on a thread with a large stack so that moderately deep inputs are decided by
/// the code under test and not by the harness' own stack (deep-nesting probes go through
/// the real CLI binary instead, see C07).
fn run_big_stack<F>(args: Vec<String>, f: F) -> i32
where
    F: FnOnce(&[String]) -> i32 + Send + 'static,
{
    let stack = env::var("VDRIVE_STACK_MB")
        .ok()
        .and_then(|s| s.parse::<usize>().ok())
        .unwrap_or(256);
    let h = std::thread::Builder::new()
        .stack_size(stack << 20)
        .spawn(move || f(&args))
        .expect("spawn");
    h.join().unwrap_or(3)
}
