//! `serve` and `types` sub-commands: translate QML documents in-process, in every
//! dynamic-binding mode, with panic capture and diagnostic rendering.

use camino::{Utf8Path, Utf8PathBuf};
use codespan_reporting::files::SimpleFile;
use codespan_reporting::term;
use qmluic::diagnostic::{DiagnosticKind, Diagnostics, ProjectDiagnostics};
use qmluic::metatype;
use qmluic::metatype_tweak;
use qmluic::qmldir;
use qmluic::qmldoc::{SyntaxErrorKind, UiDocument, UiDocumentsCache};
use qmluic::qtname::FileNameRules;
use qmluic::typemap::{ModuleData, ModuleId, TypeMap};
use qmluic::uigen::{self, BuildContext, DynamicBindingHandling, XmlWriter};
use qmluic_cli::reporting;
use serde_json::{json, Value};
use std::cell::RefCell;
use std::fs;
use std::io::{self, BufRead, Write};
use std::panic::{self, AssertUnwindSafe};

pub struct Options {
    pub metatypes_dir: String,
    pub extra_types: Vec<String>,
}

pub fn parse_options(args: &[String]) -> Options {
    let mut o = Options {
        metatypes_dir: "/repo/contrib/metatypes".to_owned(),
        extra_types: vec![],
    };
    let mut i = 0;
    while i < args.len() {
        match args[i].as_str() {
            "--types" => {
                o.extra_types.push(args[i + 1].clone());
                i += 2;
            }
            "--metatypes" => {
                o.metatypes_dir = args[i + 1].clone();
                i += 2;
            }
            other => {
                eprintln!("unknown option {other}");
                std::process::exit(2);
            }
        }
    }
    o
}

pub fn load_classes(o: &Options) -> Vec<metatype::Class> {
    let mut classes = Vec::new();
    for f in [
        "qt5core_metatypes.json",
        "qt5gui_metatypes.json",
        "qt5widgets_metatypes.json",
    ] {
        let p = format!("{}/{}", o.metatypes_dir, f);
        let data = fs::read_to_string(&p).unwrap_or_else(|e| panic!("read {p}: {e}"));
        classes.extend(metatype::extract_classes_from_str(&data).expect("metatypes json"));
    }
    for p in &o.extra_types {
        let data = fs::read_to_string(p).unwrap_or_else(|e| panic!("read {p}: {e}"));
        classes.extend(metatype::extract_classes_from_str(&data).expect("extra types json"));
    }
    metatype_tweak::apply_all(&mut classes);
    classes
}

fn make_type_map(classes: &[metatype::Class]) -> TypeMap {
    let mut type_map = TypeMap::with_primitive_types();
    let mut module_data = ModuleData::with_builtins();
    module_data.extend(classes.iter().cloned());
    type_map.insert_module(ModuleId::Named("qmluic.QtWidgets"), module_data);
    type_map
}

pub fn dump_types(args: &[String]) -> i32 {
    let o = parse_options(args);
    let classes = load_classes(&o);
    let out = io::stdout();
    serde_json::to_writer(out.lock(), &classes).unwrap();
    0
}

thread_local! {
    static LAST_PANIC: RefCell<Option<String>> = const { RefCell::new(None) };
}

fn install_panic_hook() {
    panic::set_hook(Box::new(|info| {
        let loc = info
            .location()
            .map(|l| format!("{}:{}", l.file(), l.line()))
            .unwrap_or_default();
        let msg = if let Some(s) = info.payload().downcast_ref::<&str>() {
            (*s).to_owned()
        } else if let Some(s) = info.payload().downcast_ref::<String>() {
            s.clone()
        } else {
            "<non-string panic>".to_owned()
        };
        LAST_PANIC.with(|p| *p.borrow_mut() = Some(format!("{msg} @ {loc}")));
    }));
}

fn take_panic() -> String {
    LAST_PANIC
        .with(|p| p.borrow_mut().take())
        .unwrap_or_else(|| "<unknown panic>".to_owned())
}

fn mode_of(s: &str) -> DynamicBindingHandling {
    match s {
        "generate" => DynamicBindingHandling::Generate,
        "reject" => DynamicBindingHandling::Reject,
        "omit" => DynamicBindingHandling::Omit,
        _ => panic!("bad mode {s}"),
    }
}

fn diag_to_json(diagnostics: &Diagnostics) -> Vec<Value> {
    diagnostics
        .iter()
        .map(|d| {
            json!({
                "kind": match d.kind() { DiagnosticKind::Error => "error", DiagnosticKind::Warning => "warning" },
                "s": d.start_byte(), "e": d.end_byte(), "msg": d.message(),
                "labels": d.labels().iter().map(|(r, s)| json!([r.start, r.end, s])).collect::<Vec<_>>(),
                "notes": d.notes(),
            })
        })
        .collect()
}

fn render_diags(
    doc: &UiDocument,
    ds: impl IntoIterator<Item = reporting::ReportableDiagnostic>,
) -> Result<String, String> {
    let mut buf = String::new();
    let config = term::Config::default();
    let files = SimpleFile::new(
        doc.path()
            .and_then(|p| p.file_name())
            .unwrap_or("<unknown>"),
        doc.source(),
    );
    for d in ds {
        term::emit_to_string(&mut buf, &config, &files, &d).map_err(|e| e.to_string())?;
    }
    Ok(buf)
}

/// Builds one document in one mode. Mirrors `generate_ui_file` / `preview_file` of src/main.rs
/// except that nothing is written to disk and the build is attempted even when the document
/// has syntax errors (which is what `preview` does).
fn build_mode(
    type_map: &TypeMap,
    doc: &UiDocument,
    mode: &str,
    lowercase: bool,
    want_render: bool,
    indent: bool,
) -> Value {
    let r = panic::catch_unwind(AssertUnwindSafe(|| {
        let rules = FileNameRules {
            lowercase,
            ..Default::default()
        };
        let ctx = BuildContext::prepare(type_map, rules, mode_of(mode)).expect("build context");
        let mut diagnostics = Diagnostics::new();
        let built = uigen::build(&ctx, doc, &mut diagnostics);
        let mut out = json!({});
        match built {
            Some((form, support)) => {
                let mut buf = Vec::new();
                if indent {
                    form.serialize_to_xml(&mut XmlWriter::new_with_indent(&mut buf, b' ', 1))
                        .expect("serialize");
                } else {
                    form.serialize_to_xml(&mut XmlWriter::new(&mut buf))
                        .expect("serialize");
                }
                out["status"] = json!("built");
                out["ui"] = json!(String::from_utf8(buf).expect("utf8 ui"));
                if let Some(s) = support {
                    let mut h = Vec::new();
                    s.write_header(&mut h).expect("header");
                    out["header"] = json!(String::from_utf8(h).expect("utf8 header"));
                } else {
                    out["header"] = Value::Null;
                }
            }
            None => {
                out["status"] = json!("none");
            }
        }
        out["has_error"] = json!(diagnostics.has_error());
        out["diagnostics"] = json!(diag_to_json(&diagnostics));
        if want_render {
            let rr = panic::catch_unwind(AssertUnwindSafe(|| {
                render_diags(doc, reporting::make_reportable_diagnostics(&diagnostics))
            }));
            match rr {
                Ok(Ok(s)) => {
                    out["render_ok"] = json!(true);
                    out["render_len"] = json!(s.len());
                }
                Ok(Err(e)) => {
                    out["render_ok"] = json!(false);
                    out["render_err"] = json!(e);
                }
                Err(_) => {
                    out["render_ok"] = json!(false);
                    out["render_err"] = json!(format!("panic: {}", take_panic()));
                }
            }
        }
        out
    }));
    match r {
        Ok(v) => v,
        Err(_) => json!({"status": "panic", "panic": take_panic()}),
    }
}

fn syntax_to_json(doc: &UiDocument, want_render: bool) -> Value {
    let r = panic::catch_unwind(AssertUnwindSafe(|| {
        let errs = doc.collect_syntax_errors();
        let list: Vec<Value> = errs
            .iter()
            .map(|e| {
                json!({"s": e.start_byte(), "e": e.end_byte(),
                   "kind": match e.kind() { SyntaxErrorKind::Error => "error", SyntaxErrorKind::Missing => "missing" },
                   "msg": e.to_string()})
            })
            .collect();
        let mut out = json!({"errors": list});
        if want_render {
            match render_diags(doc, reporting::make_reportable_syntax_errors(&errs)) {
                Ok(s) => {
                    out["render_ok"] = json!(true);
                    out["render_len"] = json!(s.len());
                }
                Err(e) => {
                    out["render_ok"] = json!(false);
                    out["render_err"] = json!(e);
                }
            }
        }
        out
    }));
    match r {
        Ok(v) => v,
        Err(_) => json!({"panic": take_panic()}),
    }
}

pub fn serve(args: &[String]) -> i32 {
    let o = parse_options(args);
    let classes = load_classes(&o);
    let shared_type_map = make_type_map(&classes);
    install_panic_hook();

    let stdin = io::stdin();
    let stdout = io::stdout();
    let mut out = io::BufWriter::new(stdout.lock());
    for line in stdin.lock().lines() {
        let line = match line {
            Ok(l) => l,
            Err(_) => break,
        };
        if line.trim().is_empty() {
            continue;
        }
        let job: Value = match serde_json::from_str(&line) {
            Ok(v) => v,
            Err(e) => {
                writeln!(out, "{}", json!({"error": format!("bad job: {e}")})).unwrap();
                out.flush().unwrap();
                continue;
            }
        };
        let id = job["id"].clone();
        let modes: Vec<String> = job["modes"]
            .as_array()
            .map(|a| a.iter().map(|m| m.as_str().unwrap().to_owned()).collect())
            .unwrap_or_else(|| vec!["generate".into(), "reject".into(), "omit".into()]);
        let want_render = job["render"].as_bool().unwrap_or(false);
        let lowercase = job["lowercase"].as_bool().unwrap_or(true);
        let indent = job["indent"].as_bool().unwrap_or(true);
        let type_name = job["type_name"].as_str().unwrap_or("MyType").to_owned();
        let repeat = job["repeat"].as_u64().unwrap_or(1);

        let mut res = json!({"id": id});
        // A job either carries its source inline or names a file on disk (then the file's
        // directory and its imports are populated as directory modules, like the CLI does).
        let parsed = panic::catch_unwind(AssertUnwindSafe(|| {
            if let Some(p) = job["path"].as_str() {
                let path = Utf8PathBuf::from(p);
                let mut type_map = make_type_map(&classes);
                let mut docs_cache = UiDocumentsCache::new();
                let mut pd = ProjectDiagnostics::new();
                let perr = qmldir::populate_directories(
                    &mut type_map,
                    &mut docs_cache,
                    [Utf8Path::new(p)],
                    &mut pd,
                )
                .err()
                .map(|e| e.to_string());
                let doc = UiDocument::read(&path).expect("read qml");
                (doc, Some(type_map), perr)
            } else {
                let src = job["source"].as_str().expect("source").to_owned();
                (UiDocument::parse(src, type_name.clone(), None), None, None)
            }
        }));
        let (doc, own_map, perr) = match parsed {
            Ok(x) => x,
            Err(_) => {
                res["parse_panic"] = json!(take_panic());
                writeln!(out, "{}", res).unwrap();
                out.flush().unwrap();
                continue;
            }
        };
        if let Some(e) = perr {
            res["populate_error"] = json!(e);
        }
        let type_map = own_map.as_ref().unwrap_or(&shared_type_map);
        res["has_syntax_error"] = json!(doc.has_syntax_error());
        if doc.has_syntax_error() {
            res["syntax"] = syntax_to_json(&doc, want_render);
        }
        let mut modes_out = json!({});
        for m in &modes {
            let mut v = Value::Null;
            for _ in 0..repeat {
                v = build_mode(type_map, &doc, m, lowercase, want_render, indent);
            }
            modes_out[m.as_str()] = v;
        }
        res["modes"] = modes_out;
        writeln!(out, "{}", res).unwrap();
        out.flush().unwrap();
    }
    0
}
