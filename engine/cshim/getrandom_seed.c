/* LD_PRELOAD interposer that takes over the only "scheduler" qmluic has: the random keys of
 * Rust's HashMap/HashSet (std::hash::RandomState) and of tempfile/fastrand.  Rust's std calls
 * the libc symbol `getrandom` (looked up weakly precisely so that it can be interposed); with
 * VERIF_HASH_SEED set, the bytes returned are a pure function of (seed, call number), so the
 * whole process becomes a deterministic function of the seed.  Without the variable the real
 * system call is used. */
#define _GNU_SOURCE
#include <errno.h>
#include <stdint.h>
#include <stdlib.h>
#include <string.h>
#include <sys/syscall.h>
#include <sys/types.h>
#include <unistd.h>

static uint64_t splitmix64(uint64_t *s) {
    uint64_t z = (*s += 0x9e3779b97f4a7c15ULL);
    z = (z ^ (z >> 30)) * 0xbf58476d1ce4e5b9ULL;
    z = (z ^ (z >> 27)) * 0x94d049bb133111ebULL;
    return z ^ (z >> 31);
}

static uint64_t calls = 0;

ssize_t getrandom(void *buf, size_t buflen, unsigned int flags) {
    const char *s = getenv("VERIF_HASH_SEED");
    if (!s) {
        return syscall(SYS_getrandom, buf, buflen, flags);
    }
    uint64_t state = strtoull(s, NULL, 10) * 0x100000001b3ULL + (++calls) * 0x2545f4914f6cdd1dULL;
    unsigned char *p = buf;
    size_t left = buflen;
    while (left > 0) {
        uint64_t v = splitmix64(&state);
        size_t n = left < 8 ? left : 8;
        memcpy(p, &v, n);
        p += n;
        left -= n;
    }
    return (ssize_t)buflen;
}

/* glibc's getentropy() is used by some std versions */
int getentropy(void *buf, size_t buflen) {
    if (buflen > 256) {
        errno = EIO;
        return -1;
    }
    return getrandom(buf, buflen, 0) == (ssize_t)buflen ? 0 : -1;
}
