#!/usr/bin/env python3
"""Generates fixtures/vtypes.json: synthetic user metatypes (a first-class qmluic input via
--foreign-types) declaring VObj with one property of every type kind and every NOTIFY shape.
Run by hand; the output is committed."""
import json, os

def prop(name, ty, read=True, write=True, notify=None, constant=False):
    cap = name[0].upper() + name[1:]
    d = {"constant": constant, "designable": True, "final": False, "name": name,
         "required": False, "scriptable": True, "stored": True, "type": ty, "user": False}
    if read:
        d["read"] = name
    if write:
        d["write"] = "set" + cap
    if notify:
        d["notify"] = notify
    return d

def meth(name, args=(), ret="void"):
    d = {"access": "public", "name": name, "returnType": ret}
    if args:
        d["arguments"] = [{"name": f"a{i}", "type": t} for i, t in enumerate(args)]
    return d

props = []
signals = []
def rw(name, ty, with_arg):
    props.append(prop(name, ty, notify=name + "Changed"))
    signals.append(meth(name + "Changed", (ty,) if with_arg else ()))

rw("i", "int", True); rw("j", "int", False)
rw("u", "uint", True)
rw("d", "double", True)
rw("b", "bool", True); rw("c", "bool", False)
rw("s", "QString", True); rw("t", "QString", False)
rw("e", "VObj::Mode", True)
rw("e2", "VObj::Mode2", False)
rw("sc", "VObj::Scoped", False)                 # a property of a scoped enum type
rw("f", "VObj::Flags", False)
rw("p", "VObj*", True); rw("q", "VObj*", False)
rw("sl", "QStringList", False)
rw("v", "QVariant", False)
# notify declared as a default-argument pair (two metatype entries)
props.append(prop("o", "int", notify="oChanged"))
signals += [meth("oChanged"), meth("oChanged", ("int",))]
# special access patterns
props.append(prop("k", "int", write=False, constant=True))
props.append(prop("n", "int"))                                   # no NOTIFY, not CONSTANT
props.append(prop("ro", "int", write=False, notify="roChanged")); signals.append(meth("roChanged"))
props.append(prop("wo", "int", read=False))
# result sinks
for name, ty in [("ri", "int"), ("ru", "uint"), ("rd", "double"), ("rb", "bool"), ("rs", "QString"),
                 ("re", "VObj::Mode"), ("re2", "VObj::Mode2"), ("rf", "VObj::Flags"), ("rp", "VObj*"), ("rsl", "QStringList"),
                 ("rv", "QVariant")]:
    rw(name, ty, False)
signals += [meth("fired"), meth("firedWith", ("int", "QString")),
            meth("firedDefault"), meth("firedDefault", ("int",)),
            meth("firedObj", ("VObj*",)), meth("firedBool", ("bool",)), meth("firedMode", ("VObj::Mode",)),
            meth("amb", ("int",)), meth("amb", ("QString",)),
            meth("tri"), meth("tri", ("int",)), meth("tri", ("QString",)),
            meth("chain3"), meth("chain3", ("int",)), meth("chain3", ("int", "QString"))]
slots = [meth("opt"), meth("opt", ("int",)), meth("opt2", ("int",)), meth("opt2", ("int", "QString")),    # slots with default-argument variants
         meth("done", ("int",)), meth("say", ("QString",)), meth("take", ("VObj*",)), meth("act"),
         meth("sayBool", ("bool",)), meth("sayDouble", ("double",)), meth("sayUint", ("uint",)),
         meth("sayMode", ("VObj::Mode",)), meth("sayList", ("QStringList",))]
methods = [meth("calc"), meth("calc", ("int",)),      # invokable with a default-argument variant
           meth("twice", ("int",), "int"), meth("echo", ("QString",), "QString")]
enums = [
    {"isClass": False, "isFlag": False, "name": "Mode", "values": ["M0", "M1", "M2"]},
    {"isClass": False, "isFlag": False, "name": "Mode2", "values": ["N0", "N1"]},
    {"isClass": False, "isFlag": False, "name": "Flag", "values": ["F0", "F1", "F2"]},
    {"alias": "Flag", "isClass": False, "isFlag": True, "name": "Flags", "values": ["F0", "F1", "F2"]},
    {"isClass": True, "isFlag": False, "name": "Scoped", "values": ["S0", "S1"]},
]
vobj = {"className": "VObj", "qualifiedClassName": "VObj", "object": True, "enums": enums,
        "properties": props, "signals": signals, "slots": slots, "methods": methods,
        "superClasses": [{"access": "public", "name": "QWidget"}]}
def sub(name, base):
    return {"className": name, "qualifiedClassName": name, "object": True,
            "superClasses": [{"access": "public", "name": base}]}
vsub = sub("VSub", "VObj")
# a derived class with its own properties: the NOTIFY signal of `w` is declared in the base class (legal in Qt)
vsub["properties"] = [prop("w", "int", notify="iChanged"), prop("x", "int", notify="xChanged"), prop("y", "int")]
vsub["signals"] = [meth("xChanged", ("int",))]
classes = [vobj, vsub, sub("QLabel1", "QLabel"), sub("Widget1", "QWidget"),
           sub("QWidget1", "QWidget"), sub("KLineEdit", "QLineEdit"),
           # classes that merely derive from the ones qmluic treats specially (C11: element kind by derivation)
           sub("VMenu", "QMenu"), sub("VAction", "QAction"), sub("VTabs", "QTabWidget"), sub("VBox", "QVBoxLayout")]
out = [{"classes": classes, "inputFile": "vtypes.h", "outputRevision": 68}]
json.dump(out, open(os.path.join(os.path.dirname(__file__), "vtypes.json"), "w"), indent=1)
print("wrote", len(classes), "classes,", len(props), "properties")
